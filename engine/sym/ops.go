package sym

import (
	"fmt"
	"go/token"
	"go/types"
	"math"
	"strings"
	"unicode/utf8"

	"golang.org/x/tools/go/ssa"

	"verif/engine/term"
)

func (ex *Exec) binop(op token.Token, xt types.Type, a, b Value, yt types.Type) Value {
	switch x := a.(type) {
	case *term.T:
		y := b.(*term.T)
		if x.W == 0 { // bool
			switch op {
			case token.EQL:
				return term.Eq(x, y)
			case token.NEQ:
				return term.Ne(x, y)
			case token.AND, token.LAND:
				return term.BAnd(x, y)
			case token.OR, token.LOR:
				return term.BOr(x, y)
			}
			ex.unsupported("bool binop %s", op)
		}
		_, signed, _ := intInfo(xt)
		switch op {
		case token.ADD:
			return term.Add(x, y)
		case token.SUB:
			return term.Sub(x, y)
		case token.MUL:
			return term.Mul(x, y)
		case token.QUO, token.REM:
			if !ex.Branch(term.Ne(y, term.Const(y.W, 0))) {
				ex.rtPanic("integer divide by zero")
			}
			if op == token.QUO {
				if signed {
					return term.SDiv(x, y)
				}
				return term.UDiv(x, y)
			}
			if signed {
				return term.SRem(x, y)
			}
			return term.URem(x, y)
		case token.AND:
			return term.And(x, y)
		case token.OR:
			return term.Or(x, y)
		case token.XOR:
			return term.Xor(x, y)
		case token.AND_NOT:
			return term.And(x, term.Not(y))
		case token.SHL, token.SHR:
			_, ysigned, _ := intInfo(yt)
			if ysigned && !y.IsConst() {
				if !ex.Branch(term.Sge(y, term.Const(y.W, 0))) {
					ex.rtPanic("negative shift amount")
				}
			}
			var big *term.T = term.False
			var cnt *term.T
			if y.W > x.W {
				big = term.Uge(y, term.Const(y.W, uint64(x.W)))
				cnt = term.Extract(y, x.W-1, 0)
			} else {
				cnt = term.ZExt(y, x.W)
			}
			var r, ov *term.T
			if op == token.SHL {
				r = term.Shl(x, cnt)
				ov = term.Const(x.W, 0)
			} else if signed {
				r = term.AShr(x, cnt)
				ov = term.AShr(x, term.Const(x.W, uint64(x.W-1)))
			} else {
				r = term.LShr(x, cnt)
				ov = term.Const(x.W, 0)
			}
			return term.Ite(big, ov, r)
		case token.EQL:
			if h := ex.hashEq(x, y); h != nil {
				return h
			}
			return term.Eq(x, y)
		case token.NEQ:
			if h := ex.hashEq(x, y); h != nil {
				return term.BNot(h)
			}
			return term.Ne(x, y)
		case token.LSS:
			if signed {
				return term.Slt(x, y)
			}
			return term.Ult(x, y)
		case token.LEQ:
			if signed {
				return term.Sle(x, y)
			}
			return term.Ule(x, y)
		case token.GTR:
			if signed {
				return term.Sgt(x, y)
			}
			return term.Ugt(x, y)
		case token.GEQ:
			if signed {
				return term.Sge(x, y)
			}
			return term.Uge(x, y)
		}
	case float64:
		y := b.(float64)
		switch op {
		case token.ADD:
			return x + y
		case token.SUB:
			return x - y
		case token.MUL:
			return x * y
		case token.QUO:
			return x / y
		case token.EQL:
			return term.Bool(x == y)
		case token.NEQ:
			return term.Bool(x != y)
		case token.LSS:
			return term.Bool(x < y)
		case token.LEQ:
			return term.Bool(x <= y)
		case token.GTR:
			return term.Bool(x > y)
		case token.GEQ:
			return term.Bool(x >= y)
		}
	case Str:
		y := b.(Str)
		switch op {
		case token.ADD:
			return ex.strConcat(x, y)
		case token.EQL:
			return ex.strEq(x, y)
		case token.NEQ:
			return term.BNot(ex.strEq(x, y))
		case token.LSS, token.LEQ, token.GTR, token.GEQ:
			c := ex.bytesCompare(x.bslice(), y.bslice())
			switch op {
			case token.LSS:
				return term.Bool(c < 0)
			case token.LEQ:
				return term.Bool(c <= 0)
			case token.GTR:
				return term.Bool(c > 0)
			default:
				return term.Bool(c >= 0)
			}
		}
	}
	switch op {
	case token.EQL:
		return ex.equals(a, b)
	case token.NEQ:
		return term.BNot(ex.equals(a, b))
	}
	ex.unsupported("binop %s on %T", op, a)
	return nil
}

func (ex *Exec) strConcat(x, y Str) Str {
	if !x.sym && !y.sym {
		return Str{s: x.s + y.s}
	}
	xb, yb := x.bslice(), y.bslice()
	n := term.Add(xb.len, yb.len)
	na := newZeroArr(n)
	if xb.arr != nil {
		copyBytes(na, zero64, xb.arr, xb.off, xb.len)
	}
	if yb.arr != nil {
		copyBytes(na, xb.len, yb.arr, yb.off, yb.len)
	}
	return Str{sym: true, b: BSlice{arr: na, off: zero64, len: n, cap: n}}
}

// bytesEqTerm builds the equality of two byte sequences whose lengths are
// equal and concrete.
func (ex *Exec) bytesEqConcreteLen(a, b BSlice, n uint64) *term.T {
	r := term.True
	for i := uint64(0); i < n; i++ {
		r = term.BAnd(r, term.Eq(a.at(u64(i)), b.at(u64(i))))
		if r.IsFalse() {
			return r
		}
	}
	return r
}

func (ex *Exec) strEq(x, y Str) *term.T {
	if !x.sym && !y.sym {
		return term.Bool(x.s == y.s)
	}
	return ex.bytesEq(x.bslice(), y.bslice())
}

// bytesEq: equality of two byte sequences as a term; symbolic lengths are
// concretized (forking) once the lengths are known to be equal.
func (ex *Exec) bytesEq(a, b BSlice) *term.T {
	if !ex.Branch(term.Eq(a.len, b.len)) {
		return term.False
	}
	var n uint64
	if a.len.IsConst() {
		n = a.len.C
	} else if b.len.IsConst() {
		n = b.len.C
	} else {
		n = ex.Concretize(a.len)
	}
	if n == 0 {
		return term.True
	}
	return ex.bytesEqConcreteLen(a, b, n)
}

// bytesCompare returns -1/0/1 forking as needed (lexicographic).
func (ex *Exec) bytesCompare(a, b BSlice) int {
	la := ex.Concretize(a.len)
	lb := ex.Concretize(b.len)
	n := la
	if lb < n {
		n = lb
	}
	for i := uint64(0); i < n; i++ {
		x, y := a.at(u64(i)), b.at(u64(i))
		if ex.Branch(term.Eq(x, y)) {
			continue
		}
		if ex.Branch(term.Ult(x, y)) {
			return -1
		}
		return 1
	}
	switch {
	case la < lb:
		return -1
	case la > lb:
		return 1
	}
	return 0
}

// equals is structural equality (==) producing a bool term.
func (ex *Exec) equals(a, b Value) *term.T {
	switch x := a.(type) {
	case *term.T:
		if h := ex.hashEq(x, b.(*term.T)); h != nil {
			return h
		}
		return term.Eq(x, b.(*term.T))
	case float64:
		return term.Bool(x == b.(float64))
	case Str:
		return ex.strEq(x, b.(Str))
	case Ptr:
		y := b.(Ptr)
		if x.cell != nil || y.cell != nil {
			return term.Bool(x.cell == y.cell)
		}
		if x.barr != y.barr {
			return term.False
		}
		if x.barr == nil {
			return term.True
		}
		return term.Eq(x.bidx, y.bidx)
	case Struct:
		y := b.(Struct)
		r := term.True
		for i := range x {
			r = term.BAnd(r, ex.equals(x[i], y[i]))
			if r.IsFalse() {
				break
			}
		}
		return r
	case Array:
		y := b.(Array)
		r := term.True
		for i := range x {
			r = term.BAnd(r, ex.equals(x[i], y[i]))
		}
		return r
	case *ByteArr:
		y := b.(*ByteArr)
		return ex.bytesEq(BSlice{arr: x, off: zero64, len: x.size, cap: x.size}, BSlice{arr: y, off: zero64, len: y.size, cap: y.size})
	case Iface:
		y, ok := b.(Iface)
		if !ok {
			return term.False
		}
		if x.T == nil || y.T == nil {
			return term.Bool(x.T == nil && y.T == nil)
		}
		if !types.Identical(x.T, y.T) {
			return term.False
		}
		return ex.equals(x.V, y.V)
	case *MapV:
		y, _ := b.(*MapV)
		return term.Bool(x == y)
	case *ChanV:
		y, _ := b.(*ChanV)
		return term.Bool(x == y)
	case *Closure:
		y, _ := b.(*Closure)
		return term.Bool(x == nil && y == nil)
	case Slice:
		if _, ok := b.(LSlice); ok {
			return term.False
		}
		y := b.(Slice)
		return term.Bool(x.b == nil && y.b == nil)
	case LSlice:
		return term.False
	case BSlice:
		y := b.(BSlice)
		return term.Bool(x.arr == nil && y.arr == nil)
	case nil:
		return term.Bool(b == nil)
	}
	ex.unsupported("equals on %T", a)
	return nil
}

func (ex *Exec) convert(from, to types.Type, v Value) Value {
	fu, tu := from.Underlying(), to.Underlying()
	switch x := v.(type) {
	case *term.T:
		if tw, _, ok := intInfo(tu); ok {
			_, fs, _ := intInfo(fu)
			if x.W == tw {
				return x
			}
			if x.W > tw {
				return term.Extract(x, tw-1, 0)
			}
			if fs {
				return term.SExt(x, tw)
			}
			return term.ZExt(x, tw)
		}
		if isFloat(tu) {
			if !x.IsConst() {
				ex.unsupported("symbolic int to float conversion")
			}
			_, fs, _ := intInfo(fu)
			if fs {
				return float64(x.Signed())
			}
			return float64(x.C)
		}
		if isString(tu) {
			// string(rune)
			if !x.IsConst() {
				cells := ex.encodeRuneSym(x)
				n := u64(uint64(len(cells)))
				return Str{sym: true, b: BSlice{arr: &ByteArr{size: n, cells: cells}, off: zero64, len: n, cap: n}}
			}
			return Str{s: string(rune(x.Signed()))}
		}
		if b, ok := tu.(*types.Basic); ok && b.Kind() == types.UnsafePointer {
			ex.unsupported("uintptr to unsafe.Pointer")
		}
	case float64:
		if tw, ts, ok := intInfo(tu); ok {
			if ts {
				return term.Const(tw, uint64(int64(x)))
			}
			if x < 0 {
				return term.Const(tw, uint64(int64(x)))
			}
			return term.Const(tw, uint64(x))
		}
		if isFloat(tu) {
			if b := tu.(*types.Basic); b.Kind() == types.Float32 {
				return float64(float32(x))
			}
			return x
		}
	case Str:
		if isString(tu) {
			return x
		}
		if st, ok := tu.(*types.Slice); ok {
			if isByteType(st.Elem()) {
				if !x.sym {
					return bsliceOf([]byte(x.s))
				}
				n := x.b.len
				na := newZeroArr(n)
				copyBytes(na, zero64, x.b.arr, x.b.off, n)
				return BSlice{arr: na, off: zero64, len: n, cap: n}
			}
			// []rune
			s, ok := x.concrete()
			if !ok {
				ex.unsupported("symbolic string to []rune")
			}
			rs := []rune(s)
			b := &Backing{cells: make([]Value, len(rs))}
			for i, r := range rs {
				b.cells[i] = term.Const(32, uint64(r))
			}
			return Slice{b: b, len: len(rs), cap: len(rs)}
		}
	case BSlice:
		if isString(tu) {
			if x.arr == nil {
				return Str{}
			}
			return strOfBSlice(x)
		}
		if _, ok := tu.(*types.Slice); ok {
			return x
		}
		if pt, ok := tu.(*types.Pointer); ok { // slice to array pointer handled elsewhere
			_ = pt
		}
		if at, ok := tu.(*types.Array); ok {
			n := uint64(at.Len())
			if !ex.Branch(term.Uge(x.len, u64(n))) {
				ex.rtPanic("cannot convert slice to array: length too short")
			}
			na := newFlatZero(int(n))
			copyBytes(na, zero64, x.arr, x.off, u64(n))
			return na
		}
	case Slice:
		if isString(tu) { // []rune -> string
			var sb strings.Builder
			for i := 0; i < x.len; i++ {
				r := x.b.cells[x.off+i].(*term.T)
				if !r.IsConst() {
					ex.unsupported("symbolic []rune to string")
				}
				sb.WriteRune(rune(r.Signed()))
			}
			return Str{s: sb.String()}
		}
		return x
	case Ptr:
		return x
	}
	if types.Identical(fu, tu) {
		return v
	}
	ex.unsupported("convert %s -> %s (%T)", from, to, v)
	return nil
}

// ---------------------------------------------------------------- maps

func (ex *Exec) canonKey(v Value) (string, bool) {
	switch x := v.(type) {
	case *term.T:
		if x.IsConst() {
			return fmt.Sprintf("i%d:%x", x.W, x.C), true
		}
		return "", false
	case Str:
		if !x.sym {
			return "s" + x.s, true
		}
		if c, ok := x.b.concrete(); ok {
			return "s" + string(c), true
		}
		return "", false
	case float64:
		return fmt.Sprintf("f%v", x), true
	case Ptr:
		if x.barr != nil {
			return "", false
		}
		return fmt.Sprintf("p%p", x.cell), true
	case Iface:
		if x.T == nil {
			return "nil", true
		}
		k, ok := ex.canonKey(x.V)
		return "I" + types.TypeString(x.T, nil) + ":" + k, ok
	case Struct:
		var sb strings.Builder
		sb.WriteString("{")
		for _, f := range x {
			k, ok := ex.canonKey(f)
			if !ok {
				return "", false
			}
			fmt.Fprintf(&sb, "%d:%s,", len(k), k)
		}
		return sb.String(), true
	case Array:
		var sb strings.Builder
		sb.WriteString("[")
		for _, f := range x {
			k, ok := ex.canonKey(f)
			if !ok {
				return "", false
			}
			fmt.Fprintf(&sb, "%d:%s,", len(k), k)
		}
		return sb.String(), true
	case *ByteArr:
		c, ok := concreteBytes(x, zero64, x.size)
		if !ok {
			return "", false
		}
		return "B" + string(c), true
	case *ChanV:
		return fmt.Sprintf("c%p", x), true
	case *MapV:
		return fmt.Sprintf("m%p", x), true
	}
	return "", false
}

func (ex *Exec) mapFind(m *MapV, k Value) *mapEntry {
	if m == nil {
		return nil
	}
	if ex.race != nil {
		ex.raceRecord(m, false)
	}
	ck, conc := ex.canonKey(k)
	if conc && m.nsym == 0 {
		return m.index[ck]
	}
	for _, e := range m.entries {
		if conc && e.conc {
			if e.ck == ck {
				return e
			}
			continue
		}
		if ex.Branch(ex.equals(e.k, k)) {
			return e
		}
	}
	return nil
}

func (ex *Exec) mapSet(m *MapV, k, v Value) {
	if ex.race != nil {
		ex.raceRecord(m, true)
	}
	if e := ex.mapFind(m, k); e != nil {
		e.v = v
		return
	}
	ck, conc := ex.canonKey(k)
	e := &mapEntry{k: copyVal(k), v: v, ck: ck, conc: conc}
	m.entries = append(m.entries, e)
	if conc {
		m.index[ck] = e
	} else {
		m.nsym++
	}
}

func (ex *Exec) mapDelete(m *MapV, k Value) {
	if ex.race != nil {
		ex.raceRecord(m, true)
	}
	e := ex.mapFind(m, k)
	if e == nil {
		return
	}
	for i, x := range m.entries {
		if x == e {
			m.entries = append(m.entries[:i:i], m.entries[i+1:]...)
			break
		}
	}
	if e.conc {
		delete(m.index, e.ck)
	} else {
		m.nsym--
	}
}

func (ex *Exec) lookup(x *ssa.Lookup, mv Value, k Value) Value {
	switch m := mv.(type) {
	case *MapV:
		vt := x.X.Type().Underlying().(*types.Map).Elem()
		e := ex.mapFind(m, k)
		var v Value
		if e != nil {
			v = copyVal(e.v)
		} else {
			v = zeroValue(vt)
		}
		if x.CommaOk {
			return Tuple{v, term.Bool(e != nil)}
		}
		return v
	case Str:
		idx := idx64(k.(*term.T), x.Index.Type())
		ex.boundsCheck(idx, m.length(), "string")
		if !m.sym && idx.IsConst() {
			return term.Const(8, uint64(m.s[idx.C]))
		}
		return m.bslice().at(idx)
	}
	ex.unsupported("lookup on %T", mv)
	return nil
}

func (ex *Exec) rangeIter(v Value) Value {
	switch x := v.(type) {
	case *MapV:
		if ex.race != nil && x != nil {
			ex.raceRecord(x, false)
		}
		it := &Iter{m: x}
		if x != nil {
			it.keys = append(it.keys, x.entries...)
			if ex.cfg.ReverseMaps && len(it.keys) > 1 {
				// per range statement (thorough tier), or one decision per path: every map of the path is iterated in
				// insertion order, or every one in reverse (quick tier: 2 variants instead of 2^ranges)
				rev := false
				if ex.cfg.ReverseMapsPerRange {
					rev = ex.Choice(2) == 1
				} else {
					if ex.mapOrder == 0 {
						ex.mapOrder = 1 + ex.Choice(2)
					}
					rev = ex.mapOrder == 2
				}
				if rev {
					for i, j := 0, len(it.keys)-1; i < j; i, j = i+1, j-1 {
						it.keys[i], it.keys[j] = it.keys[j], it.keys[i]
					}
				}
			}
		}
		return it
	case Str:
		return &Iter{isS: true, s: x}
	}
	ex.unsupported("range over %T", v)
	return nil
}

func (ex *Exec) next(x *ssa.Next, it *Iter) Value {
	if x.IsString {
		s := it.s
		if !s.sym {
			if it.pos >= len(s.s) {
				return Tuple{term.False, i64(0), term.Const(32, 0)}
			}
			r, sz := utf8.DecodeRuneInString(s.s[it.pos:])
			p := it.pos
			it.pos += sz
			return Tuple{term.True, i64(int64(p)), term.Const(32, uint64(r))}
		}
		n := ex.Concretize(s.b.len)
		if uint64(it.pos) >= n {
			return Tuple{term.False, i64(0), term.Const(32, 0)}
		}
		r, w := ex.decodeRuneSym(s.b, uint64(it.pos), n)
		p := it.pos
		it.pos += w
		return Tuple{term.True, i64(int64(p)), r}
	}
	for it.pos < len(it.keys) {
		e := it.keys[it.pos]
		it.pos++
		// skip entries deleted during iteration
		live := false
		for _, c := range it.m.entries {
			if c == e {
				live = true
				break
			}
		}
		if !live {
			continue
		}
		return Tuple{term.True, copyVal(e.k), copyVal(e.v)}
	}
	mt := x.Iter.(*ssa.Range).X.Type().Underlying().(*types.Map)
	return Tuple{term.False, zeroValue(mt.Key()), zeroValue(mt.Elem())}
}

// ---------------------------------------------------------------- builtins

func (ex *Exec) callBuiltin(b *ssa.Builtin, args []Value, site ssa.CallInstruction) Value {
	switch b.Name() {
	case "len":
		switch x := args[0].(type) {
		case Str:
			return x.length()
		case BSlice:
			return x.len
		case Slice:
			return i64(int64(x.len))
		case LSlice:
			return x.slen
		case *MapV:
			if x == nil {
				return i64(0)
			}
			return i64(int64(len(x.entries)))
		case *ChanV:
			if x == nil {
				return i64(0)
			}
			return i64(int64(len(x.q)))
		case Array:
			return i64(int64(len(x)))
		case *ByteArr:
			return x.size
		case Ptr:
			switch a := (*x.cell).(type) {
			case Array:
				return i64(int64(len(a)))
			case *ByteArr:
				return a.size
			}
		}
	case "cap":
		switch x := args[0].(type) {
		case BSlice:
			return x.cap
		case Slice:
			return i64(int64(x.cap))
		case LSlice:
			return x.slen
		case *ChanV:
			return i64(int64(x.cap))
		case Array:
			return i64(int64(len(x)))
		case *ByteArr:
			return x.size
		}
	case "append":
		return ex.appendSlice(args[0], args[1], site)
	case "copy":
		return ex.copySlice(args[0], args[1])
	case "delete":
		m := args[0].(*MapV)
		if m != nil {
			ex.mapDelete(m, args[1])
		}
		return nil
	case "clear":
		switch x := args[0].(type) {
		case *MapV:
			if x != nil {
				x.entries = nil
				x.index = map[string]*mapEntry{}
				x.nsym = 0
			}
		case Slice:
			for i := 0; i < x.len; i++ {
				x.b.cells[x.off+i] = zeroValue(site.Common().Args[0].Type().Underlying().(*types.Slice).Elem())
			}
		case BSlice:
			if x.arr != nil {
				z := newZeroArr(x.len)
				copyBytes(x.arr, x.off, z, zero64, x.len)
			}
		}
		return nil
	case "print", "println":
		return nil
	case "recover":
		if n := len(ex.deferFrame); n > 0 {
			fr := ex.deferFrame[n-1]
			if fr.panicking {
				fr.panicking = false
				v := fr.panicV.val
				if i, ok := v.(Iface); ok {
					return i
				}
				return Iface{T: types.Typ[types.String], V: v}
			}
		}
		return Iface{}
	case "close":
		ch := args[0].(*ChanV)
		if ch == nil {
			ex.rtPanic("close of nil channel")
		}
		if ch.closed {
			ex.rtPanic("close of closed channel")
		}
		ch.closed = true
		return nil
	case "min", "max":
		t := site.Common().Args[0].Type()
		r := args[0]
		for _, a := range args[1:] {
			switch x := r.(type) {
			case *term.T:
				_, s, _ := intInfo(t)
				y := a.(*term.T)
				var lt *term.T
				if s {
					lt = term.Slt(y, x)
				} else {
					lt = term.Ult(y, x)
				}
				if b.Name() == "max" {
					lt = term.BNot(term.BOr(lt, term.Eq(x, y)))
				}
				r = term.Ite(lt, y, x)
			case float64:
				if b.Name() == "min" {
					r = math.Min(x, a.(float64))
				} else {
					r = math.Max(x, a.(float64))
				}
			default:
				ex.unsupported("min/max on %T", r)
			}
		}
		return r
	case "ssa:wrapnilchk":
		recv := args[0]
		if p, ok := recv.(Ptr); ok && p.IsNil() {
			ex.rtPanic("value method called using nil pointer")
		}
		return recv
	}
	ex.unsupported("builtin %s on %T", b.Name(), firstOrNil(args))
	return nil
}

func firstOrNil(a []Value) Value {
	if len(a) > 0 {
		return a[0]
	}
	return nil
}

func (ex *Exec) appendSlice(sv, tv Value, site ssa.CallInstruction) Value {
	switch s := sv.(type) {
	case BSlice:
		var t BSlice
		switch y := tv.(type) {
		case BSlice:
			t = y
		case Str:
			t = y.bslice()
		}
		if t.len.IsConst() && t.len.C == 0 {
			return s
		}
		newLen := term.Add(s.len, t.len)
		if s.arr != nil && ex.Branch(term.Ule(newLen, s.cap)) {
			copyBytes(s.arr, term.Add(s.off, s.len), t.arr, t.off, t.len)
			return BSlice{arr: s.arr, off: s.off, len: newLen, cap: s.cap}
		}
		// grow: new capacity = exact new length if symbolic, else Go-like rounding
		var nc *term.T
		if newLen.IsConst() {
			c := newLen.C
			old := uint64(0)
			if s.cap.IsConst() {
				old = s.cap.C
			}
			if c < 2*old {
				c = 2 * old
			}
			if c < 8 {
				c = 8
			}
			nc = u64(c)
		} else {
			nc = newLen
		}
		ex.allocHook(nc)
		na := newZeroArr(nc)
		if s.arr != nil {
			copyBytes(na, zero64, s.arr, s.off, s.len)
		}
		copyBytes(na, s.len, t.arr, t.off, t.len)
		return BSlice{arr: na, off: zero64, len: newLen, cap: nc}
	case Slice:
		t := tv.(Slice)
		if t.len == 0 {
			return s
		}
		nl := s.len + t.len
		if s.b != nil && nl <= s.cap {
			for i := 0; i < t.len; i++ {
				s.b.cells[s.off+s.len+i] = copyVal(t.b.cells[t.off+i])
			}
			return Slice{b: s.b, off: s.off, len: nl, cap: s.cap}
		}
		nc := nl
		if nc < 2*s.cap {
			nc = 2 * s.cap
		}
		if nc < 4 {
			nc = 4
		}
		b := &Backing{cells: make([]Value, nc)}
		if ex.race != nil {
			for i := range b.cells {
				ex.race.fresh[&b.cells[i]] = ex.race.role
			}
		}
		for i := 0; i < s.len; i++ {
			b.cells[i] = copyVal(s.b.cells[s.off+i])
		}
		for i := 0; i < t.len; i++ {
			b.cells[s.len+i] = copyVal(t.b.cells[t.off+i])
		}
		var et types.Type
		if site != nil {
			et = site.Common().Args[0].Type().Underlying().(*types.Slice).Elem()
		}
		for i := nl; i < nc; i++ {
			if et != nil {
				b.cells[i] = zeroValue(et)
			}
		}
		return Slice{b: b, off: 0, len: nl, cap: nc}
	}
	ex.unsupported("append on %T", sv)
	return nil
}

func (ex *Exec) copySlice(dv, sv Value) Value {
	switch d := dv.(type) {
	case BSlice:
		var s BSlice
		switch y := sv.(type) {
		case BSlice:
			s = y
		case Str:
			s = y.bslice()
		}
		n := term.Ite(term.Ult(s.len, d.len), s.len, d.len)
		if d.arr != nil && s.arr != nil {
			copyBytes(d.arr, d.off, s.arr, s.off, n)
		}
		return n
	case Slice:
		s := sv.(Slice)
		n := d.len
		if s.len < n {
			n = s.len
		}
		tmp := make([]Value, n)
		for i := 0; i < n; i++ {
			tmp[i] = copyVal(s.b.cells[s.off+i])
		}
		for i := 0; i < n; i++ {
			d.b.cells[d.off+i] = tmp[i]
		}
		return i64(int64(n))
	}
	ex.unsupported("copy on %T", dv)
	return nil
}

// allocHook is called with the byte size of every dynamic allocation whose size may be symbolic.
func (ex *Exec) allocHook(nbytes *term.T) {
	if ex.env.allocBound == nil {
		return
	}
	if nbytes.IsConst() && nbytes.C <= 4<<20 {
		return
	}
	// "out of proportion" = more than the harness-declared bound plus 4 MiB in a single allocation; the
	// slack makes every reported violation unmistakable in the native replay (which measures TotalAlloc).
	ok := term.Ule(nbytes, term.Add(ex.env.allocBound, u64(4<<20)))
	if ok.IsTrue() {
		return
	}
	ex.Assert(ok, ex.env.allocLabel)
}

// ---------------------------------------------------------------- channels / goroutines

func (ex *Exec) chanSend(ch *ChanV, v Value) {
	if ch == nil {
		panic(pathEnd{kind: endBlocked, msg: "send on nil channel"})
	}
	if ch.closed {
		ex.rtPanic("send on closed channel")
	}
	// unbuffered channels are treated as queues drained by the harness
	ch.q = append(ch.q, copyVal(v))
}

func (ex *Exec) chanRecv(ch *ChanV, t types.Type, commaOk bool) (Value, bool) {
	if ch == nil {
		panic(pathEnd{kind: endBlocked, msg: "receive from nil channel"})
	}
	if len(ch.q) > 0 {
		v := ch.q[0]
		ch.q = ch.q[1:]
		return v, true
	}
	if ch.closed {
		return zeroValue(t), false
	}
	if ex.cur != nil {
		// inside an interpreted goroutine: park until there is something to receive
		for len(ch.q) == 0 && !ch.closed {
			ex.park()
		}
		if len(ch.q) > 0 {
			v := ch.q[0]
			ch.q = ch.q[1:]
			return v, true
		}
		return zeroValue(t), false
	}
	// try running queued goroutines that might send
	if ex.runPendingGoroutines() && len(ch.q) > 0 {
		v := ch.q[0]
		ch.q = ch.q[1:]
		return v, true
	}
	panic(pathEnd{kind: endBlocked, msg: "receive would block forever in " + ex.site()})
}

func (ex *Exec) selectStmt(fr *frame, x *ssa.Select) Value {
	// result tuple: (index int, recvOk bool, r_0 T_0, ... r_n-1 T_n-1)
	nrecv := 0
	for _, st := range x.States {
		if st.Dir == types.RecvOnly {
			nrecv++
		}
	}
	res := make(Tuple, 2+nrecv)
	res[0] = i64(-1)
	res[1] = term.False
	ri := 0
	for _, st := range x.States {
		if st.Dir == types.RecvOnly {
			res[2+ri] = zeroValue(st.Chan.Type().Underlying().(*types.Chan).Elem())
			ri++
		}
	}
	ri = 0
	for i, st := range x.States {
		ch, _ := fr.get(st.Chan).(*ChanV)
		if st.Dir == types.RecvOnly {
			if ch != nil && (len(ch.q) > 0 || ch.closed) {
				v, ok := ex.chanRecv(ch, st.Chan.Type().Underlying().(*types.Chan).Elem(), true)
				res[0] = i64(int64(i))
				res[1] = term.Bool(ok)
				res[2+ri] = v
				return res
			}
			ri++
		} else {
			if ch != nil && !ch.closed {
				ex.chanSend(ch, fr.get(st.Send))
				res[0] = i64(int64(i))
				return res
			}
		}
	}
	if !x.Blocking {
		return res
	}
	if ex.cur != nil {
		ex.park()
		return ex.selectStmt(fr, x)
	}
	panic(pathEnd{kind: endBlocked, msg: "select would block in " + ex.site()})
}

type goTask struct {
	fn   Value
	args []Value
}

func (ex *Exec) goStmt(fn Value, args []Value) {
	if ex.env.runGo {
		ex.env.goQueue = append(ex.env.goQueue, goTask{fn, args})
		return
	}
	ex.dropped++
}

// ---- cooperative goroutines (coroutines): each interpreted `go` statement runs in its own host
// goroutine, but only one of them (or the harness) executes at a time (baton passing). A goroutine
// that would block on a channel parks and is resumed by a later runPendingGoroutines.

type coroMsg struct {
	kind string // "blocked" | "done" | "panic"
	p    interface{}
}

type coro struct {
	resume  chan bool
	yield   chan coroMsg
	started bool
	done    bool
	stack   []*frame
	depth   int
	defers  []*frame
	task    goTask
}

// park is called by a goroutine that cannot proceed; returns when it is resumed.
func (ex *Exec) park() {
	c := ex.cur
	c.stack, c.depth, c.defers = ex.stack, ex.depth, ex.deferFrame
	c.yield <- coroMsg{kind: "blocked"}
	if ok := <-c.resume; !ok {
		panic(pathEnd{kind: endStop, msg: "goroutine aborted at path end"})
	}
	ex.stack, ex.depth, ex.deferFrame = c.stack, c.depth, c.defers
}

func (ex *Exec) startCoro(c *coro) {
	go func() {
		defer func() {
			r := recover()
			c.done = true
			if r != nil {
				if pe, ok := r.(pathEnd); ok && pe.kind == endStop {
					c.yield <- coroMsg{kind: "done"}
					return
				}
				c.yield <- coroMsg{kind: "panic", p: r}
				return
			}
			c.yield <- coroMsg{kind: "done"}
		}()
		if ok := <-c.resume; !ok {
			panic(pathEnd{kind: endStop})
		}
		ex.stack, ex.depth, ex.deferFrame = nil, 0, nil
		ex.call(c.task.fn, c.task.args, nil)
	}()
}

// runPendingGoroutines starts queued goroutines and resumes parked ones until none makes progress.
func (ex *Exec) runPendingGoroutines() bool {
	if ex.cur != nil {
		return false // only the harness goroutine schedules
	}
	for _, t := range ex.env.goQueue {
		c := &coro{resume: make(chan bool), yield: make(chan coroMsg), task: t}
		ex.startCoro(c)
		ex.env.coros = append(ex.env.coros, c)
	}
	ex.env.goQueue = nil
	ran := false
	mainStack, mainDepth, mainDefers := ex.stack, ex.depth, ex.deferFrame
	defer func() { ex.stack, ex.depth, ex.deferFrame, ex.cur = mainStack, mainDepth, mainDefers, nil }()
	for round := 0; round < 64; round++ {
		progress := false
		for _, c := range ex.env.coros {
			if c.done {
				continue
			}
			before := ex.steps
			ex.cur = c
			c.resume <- true
			msg := <-c.yield
			ex.cur = nil
			if msg.kind == "panic" {
				panic(msg.p)
			}
			if ex.steps-before > 40 || msg.kind == "done" {
				progress = true
				ran = true
			}
			// newly spawned goroutines
			for _, t := range ex.env.goQueue {
				nc := &coro{resume: make(chan bool), yield: make(chan coroMsg), task: t}
				ex.startCoro(nc)
				ex.env.coros = append(ex.env.coros, nc)
				progress = true
			}
			ex.env.goQueue = nil
		}
		if !progress {
			break
		}
	}
	return ran
}

// abortCoros terminates every parked goroutine at the end of a path.
func (ex *Exec) abortCoros() {
	for _, c := range ex.env.coros {
		if !c.done {
			c.resume <- false
			<-c.yield
		}
	}
	ex.env.coros = nil
}

// decodeRuneSym decodes one UTF-8 sequence at pos of a (partly) symbolic string of
// concrete length n, forking on the byte classes exactly as utf8.DecodeRune does.
func (ex *Exec) decodeRuneSym(b BSlice, pos, n uint64) (*term.T, int) {
	at := func(i uint64) *term.T { return b.at(u64(pos + i)) }
	in := func(x *term.T, lo, hi uint64) bool {
		return ex.Branch(term.BAnd(term.Uge(x, term.Const(8, lo)), term.Ule(x, term.Const(8, hi))))
	}
	runeErr := term.Const(32, 0xFFFD)
	b0 := at(0)
	if ex.Branch(term.Ult(b0, term.Const(8, 0x80))) {
		return term.ZExt(b0, 32), 1
	}
	z := func(x *term.T, mask uint64) *term.T { return term.ZExt(term.And(x, term.Const(8, mask)), 32) }
	sh := func(x *term.T, k uint64) *term.T { return term.Shl(x, term.Const(32, k)) }
	if in(b0, 0xC2, 0xDF) {
		if pos+1 < n && in(at(1), 0x80, 0xBF) {
			return term.Or(sh(z(b0, 0x1f), 6), z(at(1), 0x3f)), 2
		}
		return runeErr, 1
	}
	if in(b0, 0xE0, 0xEF) {
		lo, hi := uint64(0x80), uint64(0xBF)
		if ex.Branch(term.Eq(b0, term.Const(8, 0xE0))) {
			lo = 0xA0
		} else if ex.Branch(term.Eq(b0, term.Const(8, 0xED))) {
			hi = 0x9F
		}
		if pos+2 < n && in(at(1), lo, hi) && in(at(2), 0x80, 0xBF) {
			return term.Or(term.Or(sh(z(b0, 0x0f), 12), sh(z(at(1), 0x3f), 6)), z(at(2), 0x3f)), 3
		}
		return runeErr, 1
	}
	if in(b0, 0xF0, 0xF4) {
		lo, hi := uint64(0x80), uint64(0xBF)
		if ex.Branch(term.Eq(b0, term.Const(8, 0xF0))) {
			lo = 0x90
		} else if ex.Branch(term.Eq(b0, term.Const(8, 0xF4))) {
			hi = 0x8F
		}
		if pos+3 < n && in(at(1), lo, hi) && in(at(2), 0x80, 0xBF) && in(at(3), 0x80, 0xBF) {
			return term.Or(term.Or(term.Or(sh(z(b0, 0x07), 18), sh(z(at(1), 0x3f), 12)), sh(z(at(2), 0x3f), 6)), z(at(3), 0x3f)), 4
		}
		return runeErr, 1
	}
	return runeErr, 1
}

// encodeRuneSym is utf8.AppendRune for a symbolic rune: forks on the encoding length class; surrogates and values
// outside [0, 0x10FFFF] encode U+FFFD as the runtime does.
func (ex *Exec) encodeRuneSym(r *term.T) []*term.T {
	if r.W < 32 {
		r = term.ZExt(r, 32)
	} else if r.W > 32 {
		r = term.Extract(r, 31, 0)
	}
	c := func(v uint64) *term.T { return term.Const(32, v) }
	b := func(t *term.T) *term.T { return term.Extract(t, 7, 0) }
	cont := func(sh uint64) *term.T {
		return b(term.Or(c(0x80), term.And(term.LShr(r, c(sh)), c(0x3F))))
	}
	switch {
	case ex.Branch(term.Ult(r, c(0x80))):
		return []*term.T{b(r)}
	case ex.Branch(term.Ult(r, c(0x800))):
		return []*term.T{b(term.Or(c(0xC0), term.LShr(r, c(6)))), cont(0)}
	case ex.Branch(term.BOr(term.Ugt(r, c(0x10FFFF)), term.BAnd(term.Uge(r, c(0xD800)), term.Ule(r, c(0xDFFF))))):
		return []*term.T{term.Const(8, 0xEF), term.Const(8, 0xBF), term.Const(8, 0xBD)}
	case ex.Branch(term.Ult(r, c(0x10000))):
		return []*term.T{b(term.Or(c(0xE0), term.LShr(r, c(12)))), cont(6), cont(0)}
	}
	return []*term.T{b(term.Or(c(0xF0), term.LShr(r, c(18)))), cont(12), cont(6), cont(0)}
}
