package sym

import (
	"crypto/hmac"
	"crypto/sha256"
	"fmt"
	"go/types"
	"math"
	"sort"
	"strings"
	"time"
	"unicode"

	"github.com/cespare/xxhash"
	"golang.org/x/tools/go/ssa"

	"verif/engine/term"
)

func nop(ex *Exec, fn *ssa.Function, a []Value) Value { return nil }

func mkTime(ns *term.T) Value { return Struct{term.Const(64, 1), ns, Ptr{}} }

func timeNs(v Value) *term.T { return v.(Struct)[1].(*term.T) }

func ptrStruct(v Value) Struct { return (*v.(Ptr).cell).(Struct) }

func init() {
	// ---------------------------------------------------------- time
	reg("time.Now", func(ex *Exec, fn *ssa.Function, a []Value) Value { return mkTime(ex.env.clock) })
	reg("time.Since", func(ex *Exec, fn *ssa.Function, a []Value) Value { return term.Sub(ex.env.clock, timeNs(a[0])) })
	reg("time.Until", func(ex *Exec, fn *ssa.Function, a []Value) Value { return term.Sub(timeNs(a[0]), ex.env.clock) })
	reg("(time.Time).Add", func(ex *Exec, fn *ssa.Function, a []Value) Value {
		t := a[0].(Struct)
		return Struct{term.Const(64, 1), term.Add(t[1].(*term.T), a[1].(*term.T)), Ptr{}}
	})
	reg("(time.Time).Sub", func(ex *Exec, fn *ssa.Function, a []Value) Value { return term.Sub(timeNs(a[0]), timeNs(a[1])) })
	reg("(time.Time).Before", func(ex *Exec, fn *ssa.Function, a []Value) Value { return term.Slt(timeNs(a[0]), timeNs(a[1])) })
	reg("(time.Time).After", func(ex *Exec, fn *ssa.Function, a []Value) Value { return term.Sgt(timeNs(a[0]), timeNs(a[1])) })
	reg("(time.Time).Equal", func(ex *Exec, fn *ssa.Function, a []Value) Value { return term.Eq(timeNs(a[0]), timeNs(a[1])) })
	reg("(time.Time).Compare", func(ex *Exec, fn *ssa.Function, a []Value) Value {
		x, y := timeNs(a[0]), timeNs(a[1])
		return term.Ite(term.Slt(x, y), i64(-1), term.Ite(term.Eq(x, y), i64(0), i64(1)))
	})
	reg("(time.Time).IsZero", func(ex *Exec, fn *ssa.Function, a []Value) Value {
		t := a[0].(Struct)
		return term.BAnd(term.Eq(t[0].(*term.T), term.Const(64, 0)), term.Eq(t[1].(*term.T), i64(0)))
	})
	reg("(time.Time).UnixNano", func(ex *Exec, fn *ssa.Function, a []Value) Value { return timeNs(a[0]) })
	reg("(time.Time).UnixMilli", func(ex *Exec, fn *ssa.Function, a []Value) Value { return term.SDiv(timeNs(a[0]), i64(1e6)) })
	reg("(time.Time).UnixMicro", func(ex *Exec, fn *ssa.Function, a []Value) Value { return term.SDiv(timeNs(a[0]), i64(1e3)) })
	reg("(time.Time).Unix", func(ex *Exec, fn *ssa.Function, a []Value) Value { return term.SDiv(timeNs(a[0]), i64(1e9)) })
	reg("(time.Time).UTC", func(ex *Exec, fn *ssa.Function, a []Value) Value { return a[0] })
	reg("(time.Time).Local", func(ex *Exec, fn *ssa.Function, a []Value) Value { return a[0] })
	reg("(time.Time).String", func(ex *Exec, fn *ssa.Function, a []Value) Value { return Str{s: "<time>"} })
	reg("(time.Time).Format", func(ex *Exec, fn *ssa.Function, a []Value) Value { return Str{s: "<time>"} })
	reg("time.Unix", func(ex *Exec, fn *ssa.Function, a []Value) Value {
		return mkTime(term.Add(term.Mul(a[0].(*term.T), i64(1e9)), a[1].(*term.T)))
	})
	reg("time.UnixMilli", func(ex *Exec, fn *ssa.Function, a []Value) Value { return mkTime(term.Mul(a[0].(*term.T), i64(1e6))) })
	reg("time.UnixMicro", func(ex *Exec, fn *ssa.Function, a []Value) Value { return mkTime(term.Mul(a[0].(*term.T), i64(1e3))) })
	reg("time.Parse", func(ex *Exec, fn *ssa.Function, a []Value) Value {
		l, ok1 := a[0].(Str).concrete()
		v, ok2 := a[1].(Str).concrete()
		if !ok1 || !ok2 {
			ex.unsupported("time.Parse of symbolic string")
		}
		t, err := time.Parse(l, v)
		if err != nil {
			c := new(Value)
			*c = Struct{Str{s: err.Error()}, Iface{}}
			return Tuple{mkTime(i64(0)), Iface{T: fmtErrType, V: Ptr{cell: c}}}
		}
		return Tuple{mkTime(i64(t.UnixNano())), Iface{}}
	})
	reg("time.Sleep", nop)
	reg("(time.Duration).String", func(ex *Exec, fn *ssa.Function, a []Value) Value { return Str{s: "<duration>"} })
	reg("time.AfterFunc", func(ex *Exec, fn *ssa.Function, a []Value) Value {
		tr := &timerRec{fn: a[1], at: term.Add(ex.env.clock, a[0].(*term.T))}
		ex.env.timers = append(ex.env.timers, tr)
		c := new(Value)
		*c = zeroValue(fn.Signature.Results().At(0).Type().(*types.Pointer).Elem())
		ex.env.side[c] = tr
		return Ptr{cell: c}
	})
	reg("(*time.Timer).Stop", func(ex *Exec, fn *ssa.Function, a []Value) Value {
		if tr, ok := ex.env.side[a[0].(Ptr).cell].(*timerRec); ok {
			was := !tr.stopped && !tr.fired
			tr.stopped = true
			return term.Bool(was)
		}
		return term.False
	})
	reg("(*time.Timer).Reset", func(ex *Exec, fn *ssa.Function, a []Value) Value {
		if tr, ok := ex.env.side[a[0].(Ptr).cell].(*timerRec); ok {
			was := !tr.stopped && !tr.fired
			tr.stopped, tr.fired = false, false
			tr.at = term.Add(ex.env.clock, a[1].(*term.T))
			return term.Bool(was)
		}
		return term.False
	})
	newTimerLike := func(ex *Exec, fn *ssa.Function, a []Value) Value {
		c := new(Value)
		st := zeroValue(fn.Signature.Results().At(0).Type().(*types.Pointer).Elem()).(Struct)
		st[0] = &ChanV{cap: 1}
		*c = st
		return Ptr{cell: c}
	}
	reg("time.NewTimer", newTimerLike)
	reg("time.NewTicker", newTimerLike)
	reg("(*time.Ticker).Stop", nop)
	reg("(*time.Ticker).Reset", nop)
	reg("time.After", func(ex *Exec, fn *ssa.Function, a []Value) Value { return &ChanV{cap: 1} })
	reg("time.Tick", func(ex *Exec, fn *ssa.Function, a []Value) Value { return &ChanV{cap: 1} })

	// ---------------------------------------------------------- sync
	for _, n := range []string{"(*sync.Mutex).Lock", "(*sync.Mutex).Unlock", "(*sync.RWMutex).Lock", "(*sync.RWMutex).Unlock",
		"(*sync.RWMutex).RLock", "(*sync.RWMutex).RUnlock", "(*sync.WaitGroup).Add", "(*sync.WaitGroup).Done", "(*sync.WaitGroup).Wait",
		"(*sync.Cond).Signal", "(*sync.Cond).Broadcast", "runtime.GC", "runtime.Gosched", "runtime.LockOSThread",
		"runtime.UnlockOSThread", "runtime.KeepAlive", "runtime.SetFinalizer", "os/signal.Notify", "runtime/debug.SetGCPercent"} {
		reg(n, lockModel(n))
	}
	reg("(*sync.Mutex).TryLock", func(ex *Exec, fn *ssa.Function, a []Value) Value { return term.True })
	reg("(*sync.Once).Do", func(ex *Exec, fn *ssa.Function, a []Value) Value {
		c := a[0].(Ptr).cell
		if _, done := ex.env.side[c]; done {
			return nil
		}
		ex.env.side[c] = term.True
		ex.call(a[1], nil, nil)
		return nil
	})
	// sync.Pool: a LIFO free list per pool - Get hands back the object most recently Put (what a single goroutine
	// observes between garbage collections), else calls New.  State left in a pooled object is therefore visible
	// to its next user, as it is at run time.
	reg("(*sync.Pool).Put", func(ex *Exec, fn *ssa.Function, a []Value) Value {
		c := a[0].(Ptr).cell
		lst, _ := ex.env.side[c].([]Value)
		ex.env.side[c] = append(lst, a[1])
		return nil
	})
	reg("(*sync.Pool).Get", func(ex *Exec, fn *ssa.Function, a []Value) Value {
		if c := a[0].(Ptr).cell; c != nil {
			if lst, _ := ex.env.side[c].([]Value); len(lst) > 0 {
				v := lst[len(lst)-1]
				ex.env.side[c] = lst[:len(lst)-1]
				return v
			}
		}
		st := ptrStruct(a[0])
		newFn := st[len(st)-1]
		if cl, ok := newFn.(*Closure); ok && cl != nil {
			return ex.call(cl, nil, nil)
		}
		return Iface{}
	})
	smap := func(ex *Exec, p Value) *MapV {
		c := p.(Ptr).cell
		if m, ok := ex.env.side[c].(*MapV); ok {
			return m
		}
		m := &MapV{index: map[string]*mapEntry{}}
		ex.env.side[c] = m
		return m
	}
	reg("(*sync.Map).Load", func(ex *Exec, fn *ssa.Function, a []Value) Value {
		e := ex.mapFind(smap(ex, a[0]), a[1])
		if e == nil {
			return Tuple{Iface{}, term.False}
		}
		return Tuple{e.v, term.True}
	})
	reg("(*sync.Map).Store", func(ex *Exec, fn *ssa.Function, a []Value) Value {
		ex.mapSet(smap(ex, a[0]), a[1], a[2])
		return nil
	})
	reg("(*sync.Map).LoadOrStore", func(ex *Exec, fn *ssa.Function, a []Value) Value {
		m := smap(ex, a[0])
		if e := ex.mapFind(m, a[1]); e != nil {
			return Tuple{e.v, term.True}
		}
		ex.mapSet(m, a[1], a[2])
		return Tuple{a[2], term.False}
	})
	reg("(*sync.Map).LoadAndDelete", func(ex *Exec, fn *ssa.Function, a []Value) Value {
		m := smap(ex, a[0])
		if e := ex.mapFind(m, a[1]); e != nil {
			v := e.v
			ex.mapDelete(m, a[1])
			return Tuple{v, term.True}
		}
		return Tuple{Iface{}, term.False}
	})
	reg("(*sync.Map).Delete", func(ex *Exec, fn *ssa.Function, a []Value) Value {
		ex.mapDelete(smap(ex, a[0]), a[1])
		return nil
	})
	reg("(*sync.Map).Range", func(ex *Exec, fn *ssa.Function, a []Value) Value {
		m := smap(ex, a[0])
		es := append([]*mapEntry(nil), m.entries...)
		for _, e := range es {
			r := ex.call(a[1], []Value{e.k, e.v}, nil)
			if !ex.Branch(r.(*term.T)) {
				break
			}
		}
		return nil
	})

	// ---------------------------------------------------------- atomic
	for _, ty := range []string{"Int32", "Int64", "Uint32", "Uint64", "Uintptr", "Pointer"} {
		reg("sync/atomic.Load"+ty, func(ex *Exec, fn *ssa.Function, a []Value) Value { return ex.load(a[0].(Ptr)) })
		reg("sync/atomic.Store"+ty, func(ex *Exec, fn *ssa.Function, a []Value) Value { ex.store(a[0].(Ptr), a[1]); return nil })
		reg("sync/atomic.Swap"+ty, func(ex *Exec, fn *ssa.Function, a []Value) Value {
			old := ex.load(a[0].(Ptr))
			ex.store(a[0].(Ptr), a[1])
			return old
		})
		reg("sync/atomic.CompareAndSwap"+ty, func(ex *Exec, fn *ssa.Function, a []Value) Value {
			old := ex.load(a[0].(Ptr))
			if ex.Branch(ex.equals(old, a[1])) {
				ex.store(a[0].(Ptr), a[2])
				return term.True
			}
			return term.False
		})
		if ty != "Pointer" {
			reg("sync/atomic.Add"+ty, func(ex *Exec, fn *ssa.Function, a []Value) Value {
				n := term.Add(ex.load(a[0].(Ptr)).(*term.T), a[1].(*term.T))
				ex.store(a[0].(Ptr), n)
				return n
			})
			reg("sync/atomic.And"+ty, func(ex *Exec, fn *ssa.Function, a []Value) Value {
				old := ex.load(a[0].(Ptr)).(*term.T)
				ex.store(a[0].(Ptr), term.And(old, a[1].(*term.T)))
				return old
			})
			reg("sync/atomic.Or"+ty, func(ex *Exec, fn *ssa.Function, a []Value) Value {
				old := ex.load(a[0].(Ptr)).(*term.T)
				ex.store(a[0].(Ptr), term.Or(old, a[1].(*term.T)))
				return old
			})
		}
	}
	// atomic.Pointer[T] and atomic.Value: hidden storage keyed by receiver cell
	reg("(*sync/atomic.Pointer[T]).Load", func(ex *Exec, fn *ssa.Function, a []Value) Value {
		if v, ok := ex.env.side[a[0].(Ptr).cell]; ok {
			return v
		}
		return Ptr{}
	})
	reg("(*sync/atomic.Pointer[T]).Store", func(ex *Exec, fn *ssa.Function, a []Value) Value {
		ex.env.side[a[0].(Ptr).cell] = a[1]
		return nil
	})
	reg("(*sync/atomic.Pointer[T]).Swap", func(ex *Exec, fn *ssa.Function, a []Value) Value {
		old, ok := ex.env.side[a[0].(Ptr).cell]
		ex.env.side[a[0].(Ptr).cell] = a[1]
		if !ok {
			return Ptr{}
		}
		return old
	})
	reg("(*sync/atomic.Pointer[T]).CompareAndSwap", func(ex *Exec, fn *ssa.Function, a []Value) Value {
		old, ok := ex.env.side[a[0].(Ptr).cell]
		if !ok {
			old = Ptr{}
		}
		if ex.Branch(ex.equals(old, a[1])) {
			ex.env.side[a[0].(Ptr).cell] = a[2]
			return term.True
		}
		return term.False
	})
	reg("(*sync/atomic.Value).Load", func(ex *Exec, fn *ssa.Function, a []Value) Value {
		if v, ok := ex.env.side[a[0].(Ptr).cell]; ok {
			return v
		}
		return Iface{}
	})
	reg("(*sync/atomic.Value).Store", func(ex *Exec, fn *ssa.Function, a []Value) Value {
		ex.env.side[a[0].(Ptr).cell] = a[1]
		return nil
	})

	// ---------------------------------------------------------- bytes / strings
	reg("bytes.Equal", func(ex *Exec, fn *ssa.Function, a []Value) Value { return ex.bytesEq(a[0].(BSlice), a[1].(BSlice)) })
	reg("bytes.Compare", func(ex *Exec, fn *ssa.Function, a []Value) Value {
		return i64(int64(ex.bytesCompare(a[0].(BSlice), a[1].(BSlice))))
	})
	reg("internal/bytealg.Compare", intrinsics["bytes.Compare"])
	reg("strings.Compare", func(ex *Exec, fn *ssa.Function, a []Value) Value {
		return i64(int64(ex.bytesCompare(a[0].(Str).bslice(), a[1].(Str).bslice())))
	})
	reg("internal/bytealg.IndexByte", func(ex *Exec, fn *ssa.Function, a []Value) Value {
		return ex.indexByte(a[0].(BSlice), a[1].(*term.T))
	})
	reg("internal/bytealg.IndexByteString", func(ex *Exec, fn *ssa.Function, a []Value) Value {
		return ex.indexByte(a[0].(Str).bslice(), a[1].(*term.T))
	})
	reg("bytes.IndexByte", intrinsics["internal/bytealg.IndexByte"])
	reg("strings.IndexByte", intrinsics["internal/bytealg.IndexByteString"])
	reg("internal/bytealg.CountString", func(ex *Exec, fn *ssa.Function, a []Value) Value {
		s := a[0].(Str).bslice()
		n := ex.Concretize(s.len)
		c := 0
		for i := uint64(0); i < n; i++ {
			if ex.Branch(term.Eq(s.at(u64(i)), a[1].(*term.T))) {
				c++
			}
		}
		return i64(int64(c))
	})
	reg("internal/bytealg.Count", func(ex *Exec, fn *ssa.Function, a []Value) Value {
		s := a[0].(BSlice)
		n := ex.Concretize(s.len)
		c := 0
		for i := uint64(0); i < n; i++ {
			if ex.Branch(term.Eq(s.at(u64(i)), a[1].(*term.T))) {
				c++
			}
		}
		return i64(int64(c))
	})
	reg("internal/bytealg.IndexString", func(ex *Exec, fn *ssa.Function, a []Value) Value {
		s, ok1 := a[0].(Str).concrete()
		sub, ok2 := a[1].(Str).concrete()
		if ok1 && ok2 {
			return i64(int64(strings.Index(s, sub)))
		}
		return ex.indexSub(a[0].(Str).bslice(), a[1].(Str).bslice())
	})
	reg("internal/bytealg.Index", func(ex *Exec, fn *ssa.Function, a []Value) Value {
		return ex.indexSub(a[0].(BSlice), a[1].(BSlice))
	})
	reg("strings.Index", func(ex *Exec, fn *ssa.Function, a []Value) Value {
		s, ok1 := a[0].(Str).concrete()
		sub, ok2 := a[1].(Str).concrete()
		if ok1 && ok2 {
			return i64(int64(strings.Index(s, sub)))
		}
		return ex.indexSub(a[0].(Str).bslice(), a[1].(Str).bslice())
	})
	reg("internal/bytealg.MakeNoZero", func(ex *Exec, fn *ssa.Function, a []Value) Value {
		return ex.makeSlice(types.NewSlice(types.Typ[types.Byte]), a[0].(*term.T), a[0].(*term.T))
	})
	reg("internal/stringslite.Index", intrinsics["strings.Index"])
	reg("internal/stringslite.IndexByte", intrinsics["internal/bytealg.IndexByteString"])
	reg("internal/stringslite.Clone", func(ex *Exec, fn *ssa.Function, a []Value) Value { return a[0] })
	reg("strings.Clone", func(ex *Exec, fn *ssa.Function, a []Value) Value { return a[0] })
	// strings.Builder
	sb := func(ex *Exec, p Value) BSlice {
		if v, ok := ex.env.side[p.(Ptr).cell].(BSlice); ok {
			return v
		}
		return BSlice{off: zero64, len: zero64, cap: zero64}
	}
	reg("(*strings.Builder).String", func(ex *Exec, fn *ssa.Function, a []Value) Value {
		b := sb(ex, a[0])
		if b.arr == nil {
			return Str{}
		}
		return strOfBSlice(b)
	})
	reg("(*strings.Builder).Len", func(ex *Exec, fn *ssa.Function, a []Value) Value { return sb(ex, a[0]).len })
	reg("(*strings.Builder).Cap", func(ex *Exec, fn *ssa.Function, a []Value) Value { return sb(ex, a[0]).cap })
	reg("(*strings.Builder).Reset", func(ex *Exec, fn *ssa.Function, a []Value) Value {
		delete(ex.env.side, a[0].(Ptr).cell)
		return nil
	})
	reg("(*strings.Builder).Grow", nop)
	reg("(*strings.Builder).WriteString", func(ex *Exec, fn *ssa.Function, a []Value) Value {
		s := a[1].(Str)
		ex.env.side[a[0].(Ptr).cell] = ex.appendSlice(sb(ex, a[0]), s.bslice(), nil)
		return Tuple{s.length(), Iface{}}
	})
	reg("(*strings.Builder).Write", func(ex *Exec, fn *ssa.Function, a []Value) Value {
		ex.env.side[a[0].(Ptr).cell] = ex.appendSlice(sb(ex, a[0]), a[1], nil)
		return Tuple{a[1].(BSlice).len, Iface{}}
	})
	reg("(*strings.Builder).WriteByte", func(ex *Exec, fn *ssa.Function, a []Value) Value {
		one := &ByteArr{size: u64(1), cells: []*term.T{a[1].(*term.T)}}
		ex.env.side[a[0].(Ptr).cell] = ex.appendSlice(sb(ex, a[0]), BSlice{arr: one, off: zero64, len: u64(1), cap: u64(1)}, nil)
		return Iface{}
	})
	reg("(*strings.Builder).WriteRune", func(ex *Exec, fn *ssa.Function, a []Value) Value {
		r := a[1].(*term.T)
		if !r.IsConst() {
			cells := ex.encodeRuneSym(r)
			n := u64(uint64(len(cells)))
			ex.env.side[a[0].(Ptr).cell] = ex.appendSlice(sb(ex, a[0]), BSlice{arr: &ByteArr{size: n, cells: cells}, off: zero64, len: n, cap: n}, nil)
			return Tuple{i64(int64(len(cells))), Iface{}}
		}
		s := string(rune(r.Signed()))
		ex.env.side[a[0].(Ptr).cell] = ex.appendSlice(sb(ex, a[0]), bsliceOf([]byte(s)), nil)
		return Tuple{i64(int64(len(s))), Iface{}}
	})

	// ---------------------------------------------------------- fmt / errors / log / os
	reg("fmt.Sprintf", func(ex *Exec, fn *ssa.Function, a []Value) Value { return ex.sprintf(a[0].(Str), a[1].(Slice)) })
	reg("fmt.Errorf", func(ex *Exec, fn *ssa.Function, a []Value) Value {
		s := ex.sprintf(a[0].(Str), a[1].(Slice))
		var wrapped Value = Iface{}
		sl := a[1].(Slice)
		for i := 0; i < sl.len; i++ {
			if it, ok := sl.b.cells[sl.off+i].(Iface); ok && it.T != nil && ex.findMethod(it.T, nil, "Error") != nil {
				wrapped = it
			}
		}
		c := new(Value)
		*c = Struct{s, wrapped}
		return Iface{T: fmtErrType, V: Ptr{cell: c}}
	})
	reg("fmt.Sprint", func(ex *Exec, fn *ssa.Function, a []Value) Value { return ex.sprint(a[0].(Slice), "") })
	reg("fmt.Sprintln", func(ex *Exec, fn *ssa.Function, a []Value) Value {
		s := ex.sprint(a[0].(Slice), " ")
		return ex.strConcat(s, Str{s: "\n"})
	})
	for _, n := range []string{"fmt.Println", "fmt.Printf", "fmt.Print", "fmt.Fprintf", "fmt.Fprintln", "fmt.Fprint"} {
		reg(n, stubZero)
	}
	reg("errors.Is", func(ex *Exec, fn *ssa.Function, a []Value) Value {
		err, target := a[0].(Iface), a[1].(Iface)
		for d := 0; d < 32 && err.T != nil; d++ {
			if target.T != nil && types.Identical(err.T, target.T) && types.Comparable(err.T) {
				if ex.Branch(ex.equals(err, target)) {
					return term.True
				}
			}
			if m := ex.findMethod(err.T, nil, "Is"); m != nil && m.fn != nil && m.fn.Signature.Params().Len() == 1 {
				if ex.Branch(ex.call(m, []Value{err.V, target}, nil).(*term.T)) {
					return term.True
				}
			}
			rv, ok := ex.callMethod0(err, "Unwrap")
			if !ok {
				break
			}
			r, ok := rv.(Iface)
			if !ok {
				break
			}
			err = r
		}
		return term.Bool(err.T == nil && target.T == nil)
	})
	reg("os.Exit", stubFatal)
	reg("os.Getenv", func(ex *Exec, fn *ssa.Function, a []Value) Value { return Str{} })
	reg("os.Getpid", func(ex *Exec, fn *ssa.Function, a []Value) Value { return i64(4242) })
	for _, n := range []string{"log.Fatal", "log.Fatalf", "log.Fatalln", "log.Panic", "log.Panicf"} {
		reg(n, stubFatal)
	}
	for _, n := range []string{"log.Print", "log.Printf", "log.Println", "(*log.Logger).Printf", "(*log.Logger).Println", "(*log.Logger).Print"} {
		reg(n, nop)
	}

	// ---------------------------------------------------------- sort
	reg("sort.Slice", func(ex *Exec, fn *ssa.Function, a []Value) Value {
		ex.sortSlice(a[0].(Iface).V, func(i, j int) bool {
			return ex.Branch(ex.call(a[1], []Value{i64(int64(i)), i64(int64(j))}, nil).(*term.T))
		})
		return nil
	})
	reg("sort.SliceStable", intrinsics["sort.Slice"])
	reg("sort.Strings", func(ex *Exec, fn *ssa.Function, a []Value) Value {
		s := a[0].(Slice)
		ex.sortSlice(s, func(i, j int) bool {
			return ex.bytesCompare(s.b.cells[s.off+i].(Str).bslice(), s.b.cells[s.off+j].(Str).bslice()) < 0
		})
		return nil
	})

	// ---------------------------------------------------------- random
	rnd := func(w uint8, name string) Intrinsic {
		return func(ex *Exec, fn *ssa.Function, a []Value) Value {
			nm := ex.freshName("rand." + name)
			t := term.Sym(nm, w)
			ex.nondet = append(ex.nondet, NondetRec{Name: nm, Kind: "env", T: t})
			return t
		}
	}
	reg("math/rand.Uint64", rnd(64, "u64"))
	reg("math/rand.Uint32", func(ex *Exec, fn *ssa.Function, a []Value) Value {
		// stated assumption: 32-bit random identifiers (PIT tokens) never repeat
		var prev []*term.T
		for _, r := range ex.nondet {
			if r.Kind == "env" && r.T != nil && r.T.W == 32 && strings.HasPrefix(r.Name, "rand.u32") {
				prev = append(prev, r.T)
			}
		}
		t := rnd(32, "u32")(ex, fn, a).(*term.T)
		for _, p := range prev {
			ex.Assume(term.Ne(t, p))
		}
		return t
	})
	reg("math/rand.Int63", func(ex *Exec, fn *ssa.Function, a []Value) Value {
		t := rnd(64, "i63")(ex, fn, a).(*term.T)
		return term.LShr(t, term.Const(64, 1))
	})
	reg("math/rand.Int", intrinsics["math/rand.Int63"])
	reg("math/rand.Int31", func(ex *Exec, fn *ssa.Function, a []Value) Value {
		t := rnd(32, "i31")(ex, fn, a).(*term.T)
		return term.LShr(t, term.Const(32, 1))
	})
	reg("math/rand.Intn", func(ex *Exec, fn *ssa.Function, a []Value) Value {
		t := rnd(64, "intn")(ex, fn, a).(*term.T)
		ex.Assume(term.Ult(t, a[0].(*term.T)))
		return t
	})
	reg("math/rand.Int63n", intrinsics["math/rand.Intn"])
	reg("math/rand.Int31n", func(ex *Exec, fn *ssa.Function, a []Value) Value {
		t := rnd(32, "int31n")(ex, fn, a).(*term.T)
		ex.Assume(term.Ult(t, a[0].(*term.T)))
		return t
	})
	reg("math/rand.Seed", nop)
	reg("math/rand.Float64", func(ex *Exec, fn *ssa.Function, a []Value) Value { return float64(0.5) })
	reg("crypto/rand.Read", func(ex *Exec, fn *ssa.Function, a []Value) Value {
		b := a[0].(BSlice)
		n := ex.Concretize(b.len)
		for i := uint64(0); i < n; i++ {
			b.arr.write(term.Add(b.off, u64(i)), rnd(8, "byte")(ex, fn, a).(*term.T))
		}
		return Tuple{b.len, Iface{}}
	})

	// ---------------------------------------------------------- hashes
	reg("github.com/cespare/xxhash.Sum64", func(ex *Exec, fn *ssa.Function, a []Value) Value {
		return ex.hash64("xxhash", ex.byteTerms(a[0].(BSlice)))
	})
	reg("github.com/cespare/xxhash.Sum64String", func(ex *Exec, fn *ssa.Function, a []Value) Value {
		return ex.hash64("xxhash", ex.byteTerms(a[0].(Str).bslice()))
	})
	reg("github.com/cespare/xxhash.New", func(ex *Exec, fn *ssa.Function, a []Value) Value {
		t := ex.P.namedType("github.com/cespare/xxhash", "xxh")
		c := new(Value)
		*c = zeroValue(t)
		ex.env.side[c] = &digestState{kind: "xxhash"}
		return Iface{T: types.NewPointer(t), V: Ptr{cell: c}}
	})
	dg := func(ex *Exec, p Value) *digestState {
		c := p.(Ptr).cell
		if d, ok := ex.env.side[c].(*digestState); ok {
			return d
		}
		d := &digestState{kind: "xxhash"}
		ex.env.side[c] = d
		return d
	}
	reg("(*github.com/cespare/xxhash.xxh).Write", func(ex *Exec, fn *ssa.Function, a []Value) Value {
		d := dg(ex, a[0])
		d.bytes = append(d.bytes, ex.byteTerms(a[1].(BSlice))...)
		return Tuple{a[1].(BSlice).len, Iface{}}
	})
	reg("(*github.com/cespare/xxhash.xxh).Sum64", func(ex *Exec, fn *ssa.Function, a []Value) Value {
		return ex.hash64("xxhash", dg(ex, a[0]).bytes)
	})
	reg("(*github.com/cespare/xxhash.xxh).Reset", func(ex *Exec, fn *ssa.Function, a []Value) Value {
		dg(ex, a[0]).bytes = nil
		return nil
	})
	reg("crypto/sha256.Sum256", func(ex *Exec, fn *ssa.Function, a []Value) Value {
		return ex.hashBytes("sha256", ex.byteTerms(a[0].(BSlice)), 32)
	})
	reg("crypto/sha256.New", func(ex *Exec, fn *ssa.Function, a []Value) Value {
		c := new(Value)
		*c = Struct{}
		ex.env.side[c] = &digestState{kind: "sha256"}
		return Iface{T: digestType, V: Ptr{cell: c}}
	})
	reg("crypto/hmac.New", func(ex *Exec, fn *ssa.Function, a []Value) Value {
		c := new(Value)
		*c = Struct{}
		ex.env.side[c] = &digestState{kind: "hmac", key: ex.byteTerms(a[1].(BSlice))}
		return Iface{T: digestType, V: Ptr{cell: c}}
	})
	// Public-key verification primitives as "the arithmetic verifies": what is checked around them is plumbing only
	// (signature type gates, which bytes are handed over).  Listed as an assumption of C12.
	reg("crypto/ecdsa.VerifyASN1", func(ex *Exec, fn *ssa.Function, a []Value) Value { return term.True })
	reg("crypto/rsa.VerifyPKCS1v15", func(ex *Exec, fn *ssa.Function, a []Value) Value { return Iface{} })
	reg("crypto/ed25519.Verify", func(ex *Exec, fn *ssa.Function, a []Value) Value { return term.True })
	reg("crypto/hmac.Equal", func(ex *Exec, fn *ssa.Function, a []Value) Value { return ex.bytesEq(a[0].(BSlice), a[1].(BSlice)) })
	reg("crypto/subtle.ConstantTimeCompare", func(ex *Exec, fn *ssa.Function, a []Value) Value {
		return term.Ite(ex.bytesEq(a[0].(BSlice), a[1].(BSlice)), i64(1), i64(0))
	})
}

var fmtErrType = types.NewPointer(types.NewNamed(types.NewTypeName(0, nil, "fmtError", nil), types.NewStruct(nil, nil), nil))
var digestType = types.NewPointer(types.NewNamed(types.NewTypeName(0, nil, "symDigest", nil), types.NewStruct(nil, nil), nil))

type digestState struct {
	kind  string
	bytes []*term.T
	key   []*term.T
}

// lockModel: no-op now; lock tracking hooks for C16 are added in lockset.go.
func lockModel(name string) Intrinsic {
	return func(ex *Exec, fn *ssa.Function, a []Value) Value {
		if ex.lockHook != nil && len(a) > 0 {
			ex.lockHook(name, a[0])
		}
		return nil
	}
}

func (ex *Exec) byteTerms(b BSlice) []*term.T {
	n := ex.Concretize(b.len)
	if n > 1<<16 {
		ex.unsupported("hash of %d bytes", n)
	}
	out := make([]*term.T, n)
	for i := range out {
		out[i] = b.at(u64(uint64(i)))
	}
	return out
}

func allConst(ts []*term.T) ([]byte, bool) {
	out := make([]byte, len(ts))
	for i, t := range ts {
		if !t.IsConst() {
			return nil, false
		}
		out[i] = byte(t.C)
	}
	return out, true
}

func sameTerms(a, b []*term.T) bool {
	if len(a) != len(b) {
		return false
	}
	for i := range a {
		if a[i] != b[i] && !(a[i].IsConst() && b[i].IsConst() && a[i].C == b[i].C) {
			return false
		}
	}
	return true
}

// hash64 models a 64-bit hash: the real function on concrete input, otherwise an
// abstract token (fresh symbol). Tokens are only meaningful under equality:
// the interpreter rewrites h_i == h_j into "the hashed byte sequences are
// equal" (functional consistency + collision freedom, stated assumption).
func (ex *Exec) hash64(fn string, bs []*term.T) *term.T {
	if c, ok := allConst(bs); ok {
		var v uint64
		switch fn {
		case "xxhash":
			v = xxhash.Sum64(c)
		default:
			v = xxhash.Sum64(append([]byte(fn), c...))
		}
		r := u64(v)
		ex.env.hashApps = append(ex.env.hashApps, hashApp{fn: fn, bytes: bs, res: r})
		return r
	}
	for _, h := range ex.env.hashApps {
		if h.fn == fn && sameTerms(h.bytes, bs) {
			return h.res
		}
	}
	r := term.Sym(ex.freshName("h."+fn), 64)
	ex.env.hashApps = append(ex.env.hashApps, hashApp{fn: fn, bytes: bs, res: r})
	return r
}

// hashEq rewrites an equality between hash results into equality of the hashed inputs.
func (ex *Exec) hashEq(a, b *term.T) *term.T {
	// fresh 32-bit random values (PIT tokens) are assumed pairwise distinct (the generator retries on collision)
	if a.W == 32 && a.Op == term.OSym && b.Op == term.OSym && strings.HasPrefix(a.Name, "rand.u32") && strings.HasPrefix(b.Name, "rand.u32") {
		return term.Bool(a.Name == b.Name)
	}
	if a.W != 64 || len(ex.env.hashApps) == 0 {
		return nil
	}
	// hash(name)+nonce keys (dead nonce list): token + small offset on both sides
	if ta, oa := splitTok(a); ta != nil {
		if tb, ob := splitTok(b); tb != nil && (oa != nil || ob != nil) {
			if oa == nil {
				oa = term.Const(64, 0)
			}
			if ob == nil {
				ob = term.Const(64, 0)
			}
			if h := ex.hashEq(ta, tb); h != nil {
				return term.BAnd(h, term.Eq(oa, ob))
			}
		}
	}
	isTok := func(t *term.T) bool { return t.Op == term.OSym && strings.HasPrefix(t.Name, "h.") }
	if !isTok(a) && !isTok(b) {
		return nil
	}
	find := func(t *term.T) *hashApp {
		for i := range ex.env.hashApps {
			h := &ex.env.hashApps[i]
			if h.res == t || (t.IsConst() && h.res.IsConst() && h.res.C == t.C) || (t.Op == term.OSym && h.res.Op == term.OSym && h.res.Name == t.Name) {
				return h
			}
		}
		return nil
	}
	ha, hb := find(a), find(b)
	if ha == nil || hb == nil {
		if ha != nil && b.IsConst() || hb != nil && a.IsConst() {
			return term.False // a hash token never equals an unrelated constant (collision-free assumption)
		}
		return nil
	}
	if ha.fn != hb.fn || len(ha.bytes) != len(hb.bytes) {
		return term.False
	}
	eq := term.True
	for i := range ha.bytes {
		eq = term.BAnd(eq, term.Eq(ha.bytes[i], hb.bytes[i]))
	}
	return eq
}

// hashBytes models an n-byte digest ([n]byte value).
func (ex *Exec) hashBytes(fn string, bs []*term.T, n int) *ByteArr {
	if c, ok := allConst(bs); ok && fn == "sha256" {
		s := sha256.Sum256(c)
		return newFlatBytes(s[:])
	}
	nprev := len(ex.env.hashApps)
	h := ex.hash64(fn, bs)
	// digests are compared byte-wise (not as tokens), so functional consistency and collision freedom
	// are stated explicitly against every earlier application of the same function
	if len(ex.env.hashApps) > nprev && len(bs) <= 512 { // (long inputs: token only, no pairwise statement)
		for i := 0; i < nprev; i++ {
			p := ex.env.hashApps[i]
			if p.fn != fn {
				continue
			}
			var argsEq *term.T
			if len(p.bytes) != len(bs) {
				argsEq = term.False
			} else {
				argsEq = term.True
				for k := range bs {
					argsEq = term.BAnd(argsEq, term.Eq(p.bytes[k], bs[k]))
				}
			}
			ex.Assume(term.Eq(argsEq, term.Eq(p.res, h)))
		}
	}
	arr := newFlatZero(n)
	for i := 0; i < n; i++ {
		sh := uint8((i % 8) * 8)
		b := term.Extract(h, sh+7, sh)
		if i >= 8 {
			b = term.Xor(b, term.Const(8, uint64(i)))
		}
		arr.cells[i] = b
	}
	return arr
}

func (ex *Exec) digestSum(d *digestState) *ByteArr {
	if d.kind == "hmac" {
		if k, ok := allConst(d.key); ok {
			if m, ok := allConst(d.bytes); ok {
				h := hmac.New(sha256.New, k)
				h.Write(m)
				return newFlatBytes(h.Sum(nil))
			}
		}
		all := append(append([]*term.T{}, d.key...), term.Const(8, 0xff))
		all = append(all, d.bytes...)
		return ex.hashBytes("hmac", all, 32)
	}
	return ex.hashBytes("sha256", d.bytes, 32)
}


func (ex *Exec) indexByte(s BSlice, c *term.T) Value {
	n := ex.Concretize(s.len)
	for i := uint64(0); i < n; i++ {
		if ex.Branch(term.Eq(s.at(u64(i)), c)) {
			return i64(int64(i))
		}
	}
	return i64(-1)
}

func (ex *Exec) indexSub(s, sub BSlice) Value {
	n := ex.Concretize(s.len)
	m := ex.Concretize(sub.len)
	if m == 0 {
		return i64(0)
	}
	for i := uint64(0); i+m <= n; i++ {
		eq := term.True
		for j := uint64(0); j < m; j++ {
			eq = term.BAnd(eq, term.Eq(s.at(u64(i+j)), sub.at(u64(j))))
		}
		if ex.Branch(eq) {
			return i64(int64(i))
		}
	}
	return i64(-1)
}

// sortSlice: insertion sort with the interpreted comparison.
func (ex *Exec) sortSlice(v Value, less func(i, j int) bool) {
	switch s := v.(type) {
	case Slice:
		// We need stable element swapping while less() indexes the live slice.
		for i := 1; i < s.len; i++ {
			for j := i; j > 0 && less(j, j-1); j-- {
				s.b.cells[s.off+j], s.b.cells[s.off+j-1] = s.b.cells[s.off+j-1], s.b.cells[s.off+j]
			}
		}
	case BSlice:
		n := int(ex.Concretize(s.len))
		for i := 1; i < n; i++ {
			for j := i; j > 0 && less(j, j-1); j-- {
				a, b := s.at(u64(uint64(j))), s.at(u64(uint64(j-1)))
				s.arr.write(term.Add(s.off, u64(uint64(j))), b)
				s.arr.write(term.Add(s.off, u64(uint64(j-1))), a)
			}
		}
	default:
		ex.unsupported("sort of %T", v)
	}
}

// ---------------------------------------------------------------- formatting

func (ex *Exec) fmtArg(v Value) (interface{}, bool) {
	switch x := v.(type) {
	case Iface:
		if x.T == nil {
			return nil, true
		}
		if r, ok := ex.callMethod0(x, "Error"); ok {
			if s, ok := r.(Str); ok {
				if c, ok := s.concrete(); ok {
					return c, true
				}
				return "<sym>", false
			}
		}
		if r, ok := ex.callMethod0(x, "String"); ok {
			if s, ok := r.(Str); ok {
				if c, ok := s.concrete(); ok {
					return c, true
				}
				return "<sym>", false
			}
		}
		if t, ok := x.V.(*term.T); ok {
			if !t.IsConst() {
				return "<sym>", false
			}
			if t.W == 0 {
				return t.C != 0, true
			}
			if _, s, _ := intInfo(x.T); s {
				return t.Signed(), true
			}
			return t.C, true
		}
		return ex.fmtArg(x.V)
	case *term.T:
		if !x.IsConst() {
			return "<sym>", false
		}
		if x.W == 0 {
			return x.C != 0, true
		}
		return x.C, true
	case Str:
		if c, ok := x.concrete(); ok {
			return c, true
		}
		return "<sym>", false
	case float64:
		return x, true
	case BSlice:
		if c, ok := x.concrete(); ok {
			return c, true
		}
		return "<symbytes>", false
	case Ptr:
		if x.IsNil() {
			return nil, true
		}
		return "<ptr>", true
	case Struct:
		var parts []interface{}
		for _, f := range x {
			p, _ := ex.fmtArg(f)
			parts = append(parts, p)
		}
		return parts, true
	case Slice:
		var parts []interface{}
		for i := 0; i < x.len; i++ {
			p, _ := ex.fmtArg(x.b.cells[x.off+i])
			parts = append(parts, p)
		}
		return parts, true
	}
	return fmt.Sprintf("<%T>", v), true
}

func (ex *Exec) sprintf(f Str, args Slice) Str {
	format, ok := f.concrete()
	if !ok {
		return Str{s: "<symfmt>"}
	}
	// exact symbolic support: a single %02X / %02x (optionally with literal text) of a symbolic byte
	if args.len == 1 {
		if it, ok := args.b.cells[args.off].(Iface); ok {
			if t, ok := it.V.(*term.T); ok && !t.IsConst() && t.W == 8 {
				for _, verb := range []string{"%02X", "%02x"} {
					if i := strings.Index(format, verb); i >= 0 {
						pre := strings.ReplaceAll(format[:i], "%%", "%")
						post := strings.ReplaceAll(format[i+4:], "%%", "%")
						if !strings.Contains(strings.ReplaceAll(format[:i], "%%", ""), "%") && !strings.Contains(strings.ReplaceAll(format[i+4:], "%%", ""), "%") {
							upper := verb == "%02X"
							hexd := func(n *term.T) *term.T {
								base := uint64('a')
								if upper {
									base = 'A'
								}
								return term.Ite(term.Ult(n, term.Const(8, 10)), term.Add(n, term.Const(8, '0')), term.Add(n, term.Const(8, base-10)))
							}
							hi := hexd(term.LShr(t, term.Const(8, 4)))
							lo := hexd(term.And(t, term.Const(8, 15)))
							arr := &ByteArr{size: u64(2), cells: []*term.T{hi, lo}}
							mid := Str{sym: true, b: BSlice{arr: arr, off: zero64, len: u64(2), cap: u64(2)}}
							return ex.strConcat(ex.strConcat(Str{s: pre}, mid), Str{s: post})
						}
					}
				}
			}
		}
	}
	nat := make([]interface{}, args.len)
	for i := 0; i < args.len; i++ {
		nat[i], _ = ex.fmtArg(args.b.cells[args.off+i])
	}
	return Str{s: fmt.Sprintf(format, nat...)}
}

func (ex *Exec) sprint(args Slice, sep string) Str {
	nat := make([]interface{}, args.len)
	for i := 0; i < args.len; i++ {
		nat[i], _ = ex.fmtArg(args.b.cells[args.off+i])
	}
	if sep == "" {
		return Str{s: fmt.Sprint(nat...)}
	}
	s := fmt.Sprintln(nat...)
	return Str{s: strings.TrimSuffix(s, "\n")}
}

var _ = sort.Strings

func init() {
	f1 := func(name string, f func(float64) float64) {
		reg("math."+name, func(ex *Exec, fn *ssa.Function, a []Value) Value { return f(a[0].(float64)) })
	}
	f2 := func(name string, f func(a, b float64) float64) {
		reg("math."+name, func(ex *Exec, fn *ssa.Function, a []Value) Value { return f(a[0].(float64), a[1].(float64)) })
	}
	f1("Abs", math.Abs)
	f1("Floor", math.Floor)
	f1("Ceil", math.Ceil)
	f1("Sqrt", math.Sqrt)
	f1("Log", math.Log)
	f1("Log2", math.Log2)
	f1("Exp", math.Exp)
	f1("Trunc", math.Trunc)
	f1("Round", math.Round)
	f2("Pow", math.Pow)
	f2("Max", math.Max)
	f2("Min", math.Min)
	f2("Mod", math.Mod)
	reg("math.IsNaN", func(ex *Exec, fn *ssa.Function, a []Value) Value { return term.Bool(math.IsNaN(a[0].(float64))) })
	reg("math.IsInf", func(ex *Exec, fn *ssa.Function, a []Value) Value {
		return term.Bool(math.IsInf(a[0].(float64), int(a[1].(*term.T).Signed())))
	})
	reg("math.Inf", func(ex *Exec, fn *ssa.Function, a []Value) Value { return math.Inf(int(a[0].(*term.T).Signed())) })
	reg("math.NaN", func(ex *Exec, fn *ssa.Function, a []Value) Value { return math.NaN() })
	reg("math.Float64bits", func(ex *Exec, fn *ssa.Function, a []Value) Value { return u64(math.Float64bits(a[0].(float64))) })
	reg("math.Float64frombits", func(ex *Exec, fn *ssa.Function, a []Value) Value {
		t := a[0].(*term.T)
		if !t.IsConst() {
			ex.unsupported("Float64frombits of symbolic value")
		}
		return math.Float64frombits(t.C)
	})
}

// splitTok decomposes t as (hash token or concrete hash) + offset below 2^32.
func splitTok(t *term.T) (*term.T, *term.T) {
	isTok := func(x *term.T) bool { return x.Op == term.OSym && strings.HasPrefix(x.Name, "h.") }
	if isTok(t) {
		return t, nil
	}
	if t.Op == term.OAdd {
		for i := 0; i < 2; i++ {
			if isTok(t.A[i]) {
				if _, hi := t.A[1-i].Range(); hi < 1<<32 {
					return t.A[i], t.A[1-i]
				}
			}
		}
	}
	return nil, nil
}

// ---------------------------------------------------------------- unicode predicates
// The predicate tables of package unicode are package-level data built by initialisers the engine does not run.
// For a symbolic rune the predicate is encoded exactly as a disjunction of intervals computed with the real
// function over the rune's interval (at most 0x10FFFF+1 values; runes outside [0, 0x10FFFF] are false).
func init() {
	preds := map[string]func(rune) bool{
		"IsLetter": unicode.IsLetter, "IsDigit": unicode.IsDigit, "IsNumber": unicode.IsNumber, "IsSpace": unicode.IsSpace,
		"IsUpper": unicode.IsUpper, "IsLower": unicode.IsLower, "IsPunct": unicode.IsPunct, "IsControl": unicode.IsControl,
		"IsGraphic": unicode.IsGraphic, "IsPrint": unicode.IsPrint, "IsSymbol": unicode.IsSymbol, "IsMark": unicode.IsMark, "IsTitle": unicode.IsTitle,
	}
	for name, f := range preds {
		f := f
		intrinsics["unicode."+name] = func(ex *Exec, fn *ssa.Function, a []Value) Value {
			x := a[0].(*term.T) // int32
			if x.IsConst() {
				return term.Bool(f(rune(int32(x.C))))
			}
			lo, hi := x.Range()
			if hi > 0x10FFFF {
				// negative or out-of-range runes: split them off
				if !ex.Branch(term.Ule(x, term.Const(x.W, 0x10FFFF))) {
					return term.False
				}
				lo, hi = x.Range()
				if hi > 0x10FFFF {
					hi = 0x10FFFF
				}
			}
			r := term.False
			for v := lo; v <= hi; {
				if !f(rune(v)) {
					v++
					continue
				}
				e := v
				for e+1 <= hi && f(rune(e+1)) {
					e++
				}
				iv := term.BAnd(term.Uge(x, term.Const(x.W, v)), term.Ule(x, term.Const(x.W, e)))
				if e == v {
					iv = term.Eq(x, term.Const(x.W, v))
				}
				r = term.BOr(r, iv)
				v = e + 1
			}
			return r
		}
	}
}
