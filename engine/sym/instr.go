package sym

import (
	"fmt"
	"go/token"
	"go/types"

	"golang.org/x/tools/go/ssa"

	"verif/engine/term"
)

func (fr *frame) exec(ins ssa.Instruction) {
	ex := fr.ex
	switch x := ins.(type) {
	case *ssa.Alloc:
		c := new(Value)
		*c = zeroValue(x.Type().(*types.Pointer).Elem())
		if ex.race != nil {
			ex.raceFresh(c)
		}
		fr.set(x, Ptr{cell: c})
	case *ssa.BinOp:
		fr.set(x, ex.binop(x.Op, x.X.Type(), fr.get(x.X), fr.get(x.Y), x.Y.Type()))
	case *ssa.UnOp:
		fr.set(x, ex.unop(x, fr.get(x.X)))
	case *ssa.Call:
		fn, args := fr.prepareCall(&x.Call)
		fr.set(x, ex.call(fn, args, x))
	case *ssa.ChangeInterface:
		fr.set(x, fr.get(x.X))
	case *ssa.ChangeType:
		fr.set(x, fr.get(x.X))
	case *ssa.Convert:
		fr.set(x, ex.convert(x.X.Type(), x.Type(), fr.get(x.X)))
	case *ssa.MultiConvert:
		fr.set(x, ex.convert(x.X.Type(), x.Type(), fr.get(x.X)))
	case *ssa.Extract:
		fr.set(x, fr.get(x.Tuple).(Tuple)[x.Index])
	case *ssa.Field:
		fr.set(x, copyVal(fr.get(x.X).(Struct)[x.Field]))
	case *ssa.FieldAddr:
		p := fr.get(x.X).(Ptr)
		if p.cell == nil {
			ex.rtPanic("invalid memory address or nil pointer dereference")
		}
		s := (*p.cell).(Struct)
		fr.set(x, Ptr{cell: &s[x.Field]})
	case *ssa.Index:
		fr.set(x, ex.index(x, fr.get(x.X), fr.get(x.Index).(*term.T)))
	case *ssa.IndexAddr:
		fr.set(x, ex.indexAddr(x, fr.get(x.X), fr.get(x.Index).(*term.T)))
	case *ssa.Lookup:
		fr.set(x, ex.lookup(x, fr.get(x.X), fr.get(x.Index)))
	case *ssa.MakeChan:
		n := fr.get(x.Size).(*term.T)
		fr.set(x, &ChanV{cap: int(ex.Concretize(n))})
	case *ssa.MakeClosure:
		cl := &Closure{fn: x.Fn.(*ssa.Function)}
		for _, b := range x.Bindings {
			cl.env = append(cl.env, fr.get(b))
		}
		fr.set(x, cl)
	case *ssa.MakeInterface:
		fr.set(x, Iface{T: x.X.Type(), V: copyVal(fr.get(x.X))})
	case *ssa.MakeMap:
		nm := &MapV{index: map[string]*mapEntry{}, kt: x.Type().Underlying().(*types.Map).Key()}
		if ex.race != nil && ex.race.enabled {
			ex.race.fresh[nm] = ex.race.role
		}
		fr.set(x, nm)
	case *ssa.MakeSlice:
		fr.set(x, ex.makeSlice(x.Type(), fr.get(x.Len).(*term.T), fr.get(x.Cap).(*term.T)))
	case *ssa.MapUpdate:
		m := fr.get(x.Map).(*MapV)
		if m == nil {
			ex.rtPanic("assignment to entry in nil map")
		}
		ex.mapSet(m, fr.get(x.Key), copyVal(fr.get(x.Value)))
	case *ssa.Next:
		fr.set(x, ex.next(x, fr.get(x.Iter).(*Iter)))
	case *ssa.Range:
		fr.set(x, ex.rangeIter(fr.get(x.X)))
	case *ssa.Select:
		fr.set(x, ex.selectStmt(fr, x))
	case *ssa.Send:
		ch := fr.get(x.Chan).(*ChanV)
		ex.chanSend(ch, fr.get(x.X))
	case *ssa.Slice:
		fr.set(x, ex.slice(x, fr))
	case *ssa.SliceToArrayPointer:
		v := fr.get(x.X)
		switch s := v.(type) {
		case BSlice:
			n := x.Type().(*types.Pointer).Elem().Underlying().(*types.Array).Len()
			if !ex.Branch(term.Uge(s.len, u64(uint64(n)))) {
				ex.rtPanic("cannot convert slice to array pointer: length too short")
			}
			// aliasing view is not modelled: copy
			if !s.off.IsConst() {
				ex.unsupported("slice-to-array-pointer with symbolic offset")
			}
			na := newFlatZero(int(n))
			copyBytes(na, zero64, s.arr, s.off, u64(uint64(n)))
			c := new(Value)
			*c = na
			fr.set(x, Ptr{cell: c})
		default:
			ex.unsupported("SliceToArrayPointer on %T", v)
		}
	case *ssa.Store:
		ex.store(fr.get(x.Addr).(Ptr), fr.get(x.Val))
	case *ssa.TypeAssert:
		fr.set(x, ex.typeAssert(x, fr.get(x.X).(Iface)))
	case *ssa.Defer:
		fn, args := fr.prepareCall(&x.Call)
		fr.defers = append(fr.defers, deferred{fn: fn, args: args, ins: x})
	case *ssa.Go:
		fn, args := fr.prepareCall(&x.Call)
		ex.goStmt(fn, args)
	default:
		ex.unsupported("instruction %T", ins)
	}
}

func (fr *frame) prepareCall(c *ssa.CallCommon) (Value, []Value) {
	ex := fr.ex
	var args []Value
	var fn Value
	if c.IsInvoke() {
		recv := fr.get(c.Value).(Iface)
		if recv.T == nil {
			ex.rtPanic("invalid memory address or nil pointer dereference (method call on nil interface)")
		}
		m := ex.findMethod(recv.T, c.Method.Pkg(), c.Method.Name())
		if m == nil {
			ex.unsupported("method %s not found on %s", c.Method.Name(), recv.T)
		}
		fn = m
		args = append(args, recv.V)
	} else {
		fn = fr.get(c.Value)
	}
	for _, a := range c.Args {
		args = append(args, copyVal(fr.get(a)))
	}
	return fn, args
}

func (ex *Exec) load(p Ptr) Value {
	if p.cells != nil {
		// table[i] with symbolic i: ite(i==0, t0, ite(i==1, t1, ...)); the bounds check was done at the IndexAddr
		out := p.cells[len(p.cells)-1].(*term.T)
		for k := len(p.cells) - 2; k >= 0; k-- {
			out = term.Ite(term.Eq(p.cidx, term.Const(64, uint64(k))), p.cells[k].(*term.T), out)
		}
		return out
	}
	if p.cell != nil {
		if ex.race != nil {
			ex.raceRecord(p.cell, false)
		}
		return copyVal(*p.cell)
	}
	if p.barr != nil {
		if ex.race != nil {
			ex.raceRecord(p.barr, false)
		}
		return p.barr.read(p.bidx)
	}
	ex.rtPanic("invalid memory address or nil pointer dereference")
	return nil
}

func (ex *Exec) store(p Ptr, v Value) {
	if p.cell != nil {
		if ex.race != nil {
			ex.raceRecord(p.cell, true)
		}
		storeInto(p.cell, v)
		return
	}
	if p.barr != nil {
		if ex.race != nil {
			ex.raceRecord(p.barr, true)
		}
		p.barr.write(p.bidx, v.(*term.T))
		return
	}
	ex.rtPanic("invalid memory address or nil pointer dereference")
}

// symIndexPtr: a symbolic index into a vector of 2..1024 scalar cells of one width whose address is only ever loaded
// from becomes a read-only "selected element" pointer (no fork per index).
func (ex *Exec) symIndexPtr(x *ssa.IndexAddr, cells []Value, idx *term.T) (Ptr, bool) {
	if idx.IsConst() || len(cells) < 2 || len(cells) > 1024 || ex.race != nil {
		return Ptr{}, false
	}
	refs := x.Referrers()
	if refs == nil || len(*refs) == 0 {
		return Ptr{}, false
	}
	for _, r := range *refs {
		u, ok := r.(*ssa.UnOp)
		if !ok || u.Op != token.MUL {
			return Ptr{}, false
		}
	}
	var w uint8
	for i, c := range cells {
		t, ok := c.(*term.T)
		if !ok || (i > 0 && t.W != w) {
			return Ptr{}, false
		}
		w = t.W
	}
	return Ptr{cells: cells, cidx: toW64(idx, true)}, true
}

// boundsCheck forks on 0 <= idx < n (idx signed 64-bit as Go int).
func (ex *Exec) boundsCheck(idx, n *term.T, what string) {
	idx = toW64(idx, true)
	ok := term.Ult(idx, n)
	if !ex.Branch(ok) {
		ex.rtPanic("index out of range (" + what + ")")
	}
}

func toW64(t *term.T, signed bool) *term.T {
	if t.W == 64 {
		return t
	}
	if signed {
		return term.SExt(t, 64)
	}
	return term.ZExt(t, 64)
}

func idx64(t *term.T, ty types.Type) *term.T {
	_, s, _ := intInfo(ty)
	return toW64(t, s)
}

func (ex *Exec) index(x *ssa.Index, v Value, idx *term.T) Value {
	idx = idx64(idx, x.Index.Type())
	switch a := v.(type) {
	case Array:
		ex.boundsCheck(idx, u64(uint64(len(a))), "array")
		i := ex.Concretize(idx)
		return copyVal(a[i])
	case *ByteArr:
		ex.boundsCheck(idx, a.size, "array")
		return a.read(idx)
	case Str:
		ex.boundsCheck(idx, a.length(), "string")
		if !a.sym {
			if idx.IsConst() {
				return term.Const(8, uint64(a.s[idx.C]))
			}
			return a.bslice().at(idx)
		}
		return a.b.at(idx)
	}
	ex.unsupported("Index on %T", v)
	return nil
}

func (ex *Exec) indexAddr(x *ssa.IndexAddr, v Value, idx *term.T) Value {
	idx = idx64(idx, x.Index.Type())
	switch a := v.(type) {
	case Slice:
		ex.boundsCheck(idx, u64(uint64(a.len)), "slice")
		if p, ok := ex.symIndexPtr(x, a.b.cells[a.off:a.off+a.len], idx); ok {
			return p
		}
		i := ex.Concretize(idx)
		return Ptr{cell: &a.b.cells[a.off+int(i)]}
	case BSlice:
		ex.boundsCheck(idx, a.len, "slice")
		return Ptr{barr: a.arr, bidx: term.Add(a.off, idx)}
	case LSlice:
		ex.boundsCheck(idx, a.slen, "slice")
		i := int(ex.Concretize(idx))
		if i > 1<<16 {
			ex.unsupported("index %d into lazily materialised slice", i)
		}
		a.materialize(i + 1)
		return Ptr{cell: &a.b.cells[i]}
	case Ptr: // pointer to array
		if a.cell == nil {
			ex.rtPanic("invalid memory address or nil pointer dereference")
		}
		switch arr := (*a.cell).(type) {
		case Array:
			ex.boundsCheck(idx, u64(uint64(len(arr))), "array")
			if p, ok := ex.symIndexPtr(x, arr, idx); ok {
				return p
			}
			i := ex.Concretize(idx)
			return Ptr{cell: &arr[i]}
		case *ByteArr:
			ex.boundsCheck(idx, arr.size, "array")
			return Ptr{barr: arr, bidx: idx}
		}
	}
	ex.unsupported("IndexAddr on %T", v)
	return nil
}

func (ex *Exec) makeSlice(t types.Type, n, c *term.T) Value {
	st := t.Underlying().(*types.Slice)
	n = toW64(n, true)
	c = toW64(c, true)
	esz := ex.P.sizeof(st.Elem())
	if !n.IsConst() || !c.IsConst() {
		// Go: panics if len<0, len>cap or cap*elemsize exceeds the address space
		maxAlloc := uint64(1) << 47
		lim := maxAlloc / uint64(max64(esz, 1))
		okc := term.Ule(c, u64(lim))
		if !ex.Branch(okc) {
			ex.rtPanic("makeslice: cap out of range")
		}
		okn := term.Ule(n, c)
		if !ex.Branch(okn) {
			ex.rtPanic("makeslice: len out of range")
		}
	} else {
		if int64(c.C) < 0 || c.C > (1<<47)/uint64(max64(esz, 1)) {
			ex.rtPanic("makeslice: cap out of range")
		}
		if int64(n.C) < 0 || n.C > c.C {
			ex.rtPanic("makeslice: len out of range")
		}
	}
	ex.allocHook(term.Mul(c, u64(uint64(esz))))
	if isByteType(st.Elem()) {
		return BSlice{arr: newZeroArr(c), off: zero64, len: n, cap: c}
	}
	if !n.IsConst() || !c.IsConst() {
		if _, hi := n.Range(); hi > 64 {
			// lazily materialised slice with symbolic length (cap taken equal to len)
			return LSlice{b: &Backing{}, slen: n, et: st.Elem()}
		}
	}
	cn := ex.Concretize(c)
	nn := ex.Concretize(n)
	if cn > 1<<24 {
		ex.unsupported("make of %d-element non-byte slice", cn)
	}
	b := &Backing{cells: make([]Value, cn)}
	for i := range b.cells {
		b.cells[i] = zeroValue(st.Elem())
		if ex.race != nil {
			ex.raceFresh(&b.cells[i])
		}
	}
	return Slice{b: b, off: 0, len: int(nn), cap: int(cn)}
}

func max64(a, b int64) int64 {
	if a > b {
		return a
	}
	return b
}

var stdSizes = types.SizesFor("gc", "amd64")

func (p *Program) sizeof(t types.Type) int64 {
	defer func() { recover() }()
	return stdSizes.Sizeof(t)
}

func (ex *Exec) slice(x *ssa.Slice, fr *frame) Value {
	v := fr.get(x.X)
	var lo, hi, mx *term.T
	if x.Low != nil {
		lo = idx64(fr.get(x.Low).(*term.T), x.Low.Type())
	}
	if x.High != nil {
		hi = idx64(fr.get(x.High).(*term.T), x.High.Type())
	}
	if x.Max != nil {
		mx = idx64(fr.get(x.Max).(*term.T), x.Max.Type())
	}
	switch a := v.(type) {
	case Str:
		n := a.length()
		if lo == nil {
			lo = zero64
		}
		if hi == nil {
			hi = n
		}
		if !ex.Branch(term.BAnd(term.Ule(hi, n), term.Ule(lo, hi))) {
			ex.rtPanic("slice bounds out of range (string)")
		}
		if !a.sym && lo.IsConst() && hi.IsConst() {
			return Str{s: a.s[lo.C:hi.C]}
		}
		b := a.bslice()
		return Str{sym: true, b: BSlice{arr: b.arr, off: term.Add(b.off, lo), len: term.Sub(hi, lo), cap: term.Sub(hi, lo)}}
	case BSlice:
		if lo == nil {
			lo = zero64
		}
		if hi == nil {
			hi = a.len
		}
		cp := a.cap
		if mx != nil {
			if !ex.Branch(term.BAnd(term.Ule(mx, a.cap), term.Ule(hi, mx))) {
				ex.rtPanic("slice bounds out of range (max)")
			}
			cp = mx
		}
		if !ex.Branch(term.BAnd(term.Ule(hi, cp), term.Ule(lo, hi))) {
			ex.rtPanic("slice bounds out of range")
		}
		if a.arr == nil {
			return a
		}
		return BSlice{arr: a.arr, off: term.Add(a.off, lo), len: term.Sub(hi, lo), cap: term.Sub(cp, lo)}
	case Slice:
		l, h, m := 0, a.len, a.cap
		if mx != nil {
			if !ex.Branch(term.Ule(mx, u64(uint64(a.cap)))) {
				ex.rtPanic("slice bounds out of range (max)")
			}
			m = int(ex.Concretize(mx))
		}
		if hi != nil {
			if !ex.Branch(term.Ule(hi, u64(uint64(m)))) {
				ex.rtPanic("slice bounds out of range")
			}
			h = int(ex.Concretize(hi))
		}
		if lo != nil {
			if !ex.Branch(term.Ule(lo, u64(uint64(h)))) {
				ex.rtPanic("slice bounds out of range")
			}
			l = int(ex.Concretize(lo))
		}
		if a.b == nil {
			return a
		}
		return Slice{b: a.b, off: a.off + l, len: h - l, cap: m - l}
	case LSlice:
		if hi == nil || mx != nil {
			ex.unsupported("slice expression without high bound on a symbolic-length slice")
		}
		if !ex.Branch(term.Ule(hi, a.slen)) {
			ex.rtPanic("slice bounds out of range")
		}
		h := int(ex.Concretize(hi))
		l := 0
		if lo != nil {
			if !ex.Branch(term.Ule(lo, hi)) {
				ex.rtPanic("slice bounds out of range")
			}
			l = int(ex.Concretize(lo))
		}
		if h > 1<<16 {
			ex.unsupported("slice of %d elements of a lazily materialised slice", h)
		}
		a.materialize(h)
		// capacity: the full length of the underlying slice when it is known on this path (appends within it
		// write in place and alias, as natively); otherwise bounded by what is materialised (an append beyond
		// that reallocates, which the runtime may also do)
		if sl, sh := a.slen.Range(); sl == sh && sh <= 512 && int(sh) >= h {
			a.materialize(int(sh))
			return Slice{b: a.b, off: l, len: h - l, cap: int(sh) - l}
		}
		return Slice{b: a.b, off: l, len: h - l, cap: h - l}
	case Ptr:
		if a.cell == nil {
			ex.rtPanic("invalid memory address or nil pointer dereference")
		}
		switch arr := (*a.cell).(type) {
		case *ByteArr:
			return ex.sliceOfB(BSlice{arr: arr, off: zero64, len: arr.size, cap: arr.size}, lo, hi, mx)
		case Array:
			b := &Backing{cells: arr}
			s := Slice{b: b, off: 0, len: len(arr), cap: len(arr)}
			l, h := 0, len(arr)
			if hi != nil {
				if !ex.Branch(term.Ule(hi, u64(uint64(len(arr))))) {
					ex.rtPanic("slice bounds out of range")
				}
				h = int(ex.Concretize(hi))
			}
			if lo != nil {
				if !ex.Branch(term.Ule(lo, u64(uint64(h)))) {
					ex.rtPanic("slice bounds out of range")
				}
				l = int(ex.Concretize(lo))
			}
			s.off, s.len, s.cap = l, h-l, len(arr)-l
			return s
		}
	}
	ex.unsupported("Slice on %T", v)
	return nil
}

func (ex *Exec) sliceOfB(a BSlice, lo, hi, mx *term.T) Value {
	if lo == nil {
		lo = zero64
	}
	if hi == nil {
		hi = a.len
	}
	cp := a.cap
	if mx != nil {
		if !ex.Branch(term.BAnd(term.Ule(mx, a.cap), term.Ule(hi, mx))) {
			ex.rtPanic("slice bounds out of range (max)")
		}
		cp = mx
	}
	if !ex.Branch(term.BAnd(term.Ule(hi, cp), term.Ule(lo, hi))) {
		ex.rtPanic("slice bounds out of range")
	}
	return BSlice{arr: a.arr, off: term.Add(a.off, lo), len: term.Sub(hi, lo), cap: term.Sub(cp, lo)}
}

func (ex *Exec) typeAssert(x *ssa.TypeAssert, v Iface) Value {
	ok := false
	var res Value
	if _, isIface := x.AssertedType.Underlying().(*types.Interface); isIface {
		if v.T != nil {
			it := x.AssertedType.Underlying().(*types.Interface)
			ok = types.Implements(v.T, it) || ex.implements(v.T, it)
		}
		res = v
		if !ok {
			res = Iface{}
		}
	} else {
		ok = v.T != nil && types.Identical(v.T, x.AssertedType)
		if ok {
			res = copyVal(v.V)
		} else {
			res = zeroValue(x.AssertedType)
		}
	}
	if x.CommaOk {
		return Tuple{res, term.Bool(ok)}
	}
	if !ok {
		msg := fmt.Sprintf("interface conversion: interface is %v, not %s", v.T, x.AssertedType)
		panic(goPanic{val: Iface{T: rtErrType, V: Str{s: msg}}, site: ex.repoSite(), msg: msg})
	}
	return res
}

func (ex *Exec) implements(t types.Type, it *types.Interface) bool {
	ms := ex.P.Prog.MethodSets.MethodSet(t)
	for i := 0; i < it.NumMethods(); i++ {
		m := it.Method(i)
		if ms.Lookup(m.Pkg(), m.Name()) == nil {
			return false
		}
	}
	return true
}

func (ex *Exec) unop(x *ssa.UnOp, v Value) Value {
	switch x.Op {
	case token.MUL: // load
		return ex.load(v.(Ptr))
	case token.NOT:
		return term.BNot(v.(*term.T))
	case token.SUB:
		switch a := v.(type) {
		case *term.T:
			return term.Neg(a)
		case float64:
			return -a
		}
	case token.XOR:
		return term.Not(v.(*term.T))
	case token.ARROW:
		ch := v.(*ChanV)
		r, ok := ex.chanRecv(ch, x.Type(), x.CommaOk)
		if x.CommaOk {
			return Tuple{r, term.Bool(ok)}
		}
		return r
	}
	ex.unsupported("unop %s on %T", x.Op, v)
	return nil
}
