package sym

import (
	"fmt"
	"go/constant"
	"go/token"
	"go/types"
	"os"
	"runtime/debug"
	"strings"
	"sync"
	"time"

	"golang.org/x/tools/go/ssa"

	"verif/engine/term"
)

type Program struct {
	Prog     *ssa.Program
	Module   string
	fnInfos  sync.Map // *ssa.Function -> *fnInfo
	mcache   sync.Map // method cache key -> *ssa.Function
	icache   sync.Map // *ssa.Function -> Intrinsic
	InitOK   func(pkgPath string) bool
	Fset     *token.FileSet
}

type engineErr struct {
	orig    interface{}
	stack   []string
	gostack string
}

var traceOn = os.Getenv("VERIF_TRACE") != ""

type fnInfo struct {
	idx    map[ssa.Value]int
	n      int
	consts map[*ssa.Const]Value
}

func (p *Program) info(fn *ssa.Function) *fnInfo {
	if v, ok := p.fnInfos.Load(fn); ok {
		return v.(*fnInfo)
	}
	fi := &fnInfo{idx: map[ssa.Value]int{}}
	for _, pa := range fn.Params {
		fi.idx[pa] = fi.n
		fi.n++
	}
	for _, fv := range fn.FreeVars {
		fi.idx[fv] = fi.n
		fi.n++
	}
	for _, b := range fn.Blocks {
		for _, ins := range b.Instrs {
			if v, ok := ins.(ssa.Value); ok {
				fi.idx[v] = fi.n
				fi.n++
			}
		}
	}
	act, _ := p.fnInfos.LoadOrStore(fn, fi)
	return act.(*fnInfo)
}

type deferred struct {
	fn   Value
	args []Value
	ins  *ssa.Defer
}

type frame struct {
	ex        *Exec
	fn        *ssa.Function
	info      *fnInfo
	env       []Value
	block     *ssa.BasicBlock
	prev      *ssa.BasicBlock
	defers    []deferred
	result    Value
	panicking bool
	panicV    *goPanic
	recovered bool
}

func (fr *frame) get(v ssa.Value) Value {
	switch x := v.(type) {
	case *ssa.Const:
		return constValue(x)
	case *ssa.Global:
		return Ptr{cell: fr.ex.global(x)}
	case *ssa.Function:
		return &Closure{fn: x}
	case *ssa.Builtin:
		return &Closure{builtin: x}
	}
	i, ok := fr.info.idx[v]
	if !ok {
		panic(fmt.Sprintf("get: no slot for %s in %s", v.Name(), fr.fn))
	}
	return fr.env[i]
}

func (fr *frame) set(v ssa.Value, val Value) {
	fr.env[fr.info.idx[v]] = val
}

func constValue(c *ssa.Const) Value {
	t := c.Type()
	if c.Value == nil {
		return zeroValue(t)
	}
	if tp, ok := t.(*types.TypeParam); ok {
		_ = tp
		panic("const of type param")
	}
	b, ok := t.Underlying().(*types.Basic)
	if !ok {
		// e.g. interface const? treat as zero
		return zeroValue(t)
	}
	if w, _, ok := intInfo(b); ok {
		v := constant.ToInt(c.Value)
		if u, exact := constant.Uint64Val(v); exact {
			return term.Const(w, u)
		}
		i, _ := constant.Int64Val(v)
		return term.Const(w, uint64(i))
	}
	switch {
	case b.Info()&types.IsBoolean != 0:
		return term.Bool(constant.BoolVal(c.Value))
	case b.Info()&types.IsString != 0:
		if c.Value.Kind() == constant.String {
			return Str{s: constant.StringVal(c.Value)}
		}
		// string(int) constant
		i, _ := constant.Int64Val(constant.ToInt(c.Value))
		return Str{s: string(rune(i))}
	case b.Info()&types.IsFloat != 0:
		f, _ := constant.Float64Val(constant.ToFloat(c.Value))
		return f
	case b.Info()&types.IsComplex != 0:
		re, _ := constant.Float64Val(constant.Real(c.Value))
		im, _ := constant.Float64Val(constant.Imag(c.Value))
		return complex(re, im)
	}
	panic(fmt.Sprintf("constValue: %s", c))
}

func (ex *Exec) global(g *ssa.Global) *Value {
	if c, ok := ex.globals[g]; ok {
		return c
	}
	c := new(Value)
	*c = zeroValue(g.Type().(*types.Pointer).Elem())
	ex.globals[g] = c
	if g.Pkg != nil {
		path := g.Pkg.Pkg.Path()
		if ex.P.InitOK != nil && !ex.P.InitOK(path) && !zeroGlobalsOK[path] {
			ex.unsupported("global %s of package %s whose initializer is not modelled", g.Name(), path)
		}
		ex.ensureInit(g.Pkg)
	}
	return c
}

// ensureInit runs the package initializer once per path (allowlisted packages only).
func (ex *Exec) ensureInit(pkg *ssa.Package) {
	if pkg == nil || ex.initDone[pkg] {
		return
	}
	ex.initDone[pkg] = true
	path := pkg.Pkg.Path()
	if ex.P.InitOK != nil && !ex.P.InitOK(path) {
		return
	}
	initFn := pkg.Func("init")
	if initFn == nil || len(initFn.Blocks) == 0 {
		return
	}
	saved := ex.stack
	ex.stack = nil
	sd := ex.depth
	ex.depth = 0
	defer func() { ex.stack = saved; ex.depth = sd }()
	ex.execFunction(initFn, nil, nil)
}

func (ex *Exec) unsupported(format string, a ...interface{}) {
	panic(pathEnd{kind: endUnsupported, msg: fmt.Sprintf(format, a...) + " in " + ex.site()})
}

func (ex *Exec) rtPanic(msg string) {
	panic(goPanic{val: Iface{T: rtErrType, V: Str{s: "runtime error: " + msg}}, site: ex.repoSite(), msg: "runtime error: " + msg})
}

var rtErrType = types.NewNamed(types.NewTypeName(token.NoPos, nil, "runtimeError", nil), types.Typ[types.String], nil)

// call invokes a function value.
func (ex *Exec) call(fv Value, args []Value, site ssa.CallInstruction) Value {
	cl, ok := fv.(*Closure)
	if !ok || cl == nil {
		ex.rtPanic("invalid memory address or nil pointer dereference (nil func call)")
	}
	if cl.native != nil {
		return cl.native(ex, args)
	}
	if cl.builtin != nil {
		return ex.callBuiltin(cl.builtin, args, site)
	}
	return ex.runFunction(cl.fn, args, cl.env)
}

const maxDepth = 400

func (ex *Exec) runFunction(fn *ssa.Function, args []Value, env []Value) Value {
	// intrinsics
	if h := ex.P.intrinsic(fn); h != nil {
		ex.stack = append(ex.stack, &frame{ex: ex, fn: fn})
		defer func() { ex.stack = ex.stack[:len(ex.stack)-1] }()
		return h(ex, fn, args)
	}
	if fn.Pkg != nil && fn.Pkg.Func("init") == fn {
		// package initializer called from another initializer
		ex.ensureInit(fn.Pkg)
		return nil
	} else if fn.Pkg != nil && !ex.initDone[fn.Pkg] {
		ex.ensureInit(fn.Pkg)
	}
	return ex.execFunction(fn, args, env)
}

func (ex *Exec) execFunction(fn *ssa.Function, args []Value, env []Value) Value {
	if len(fn.Blocks) == 0 {
		ex.unsupported("external function %s without model", fn.String())
	}
	if ex.depth > maxDepth {
		panic(pathEnd{kind: endBudget, msg: "call depth exceeded in " + fn.String()})
	}
	if traceOn {
		var as []string
		for _, a := range args {
			as = append(as, describe(a))
		}
		fmt.Printf("%*scall %s(%s)\n", ex.depth, "", shortFn(fn), strings.Join(as, ", "))
		defer func() { fmt.Printf("%*sret  %s\n", ex.depth, "", shortFn(fn)) }()
	}
	fi := ex.P.info(fn)
	fr := &frame{ex: ex, fn: fn, info: fi, env: make([]Value, fi.n)}
	i := 0
	for range fn.Params {
		fr.env[i] = args[i]
		i++
	}
	for j := range fn.FreeVars {
		fr.env[i] = env[j]
		i++
	}
	ex.stack = append(ex.stack, fr)
	ex.depth++
	if fn.Pkg != nil && strings.HasPrefix(fn.Pkg.Pkg.Path(), ex.P.Module) {
		ex.funcs[shortFn(fn)]++
	} else if o := fn.Origin(); o != nil && o.Pkg != nil && strings.HasPrefix(o.Pkg.Pkg.Path(), ex.P.Module) {
		ex.funcs[shortFn(o)]++
	}
	defer func() {
		ex.depth--
		ex.stack = ex.stack[:len(ex.stack)-1]
	}()
	fr.block = fn.Blocks[0]
	fr.run()
	return fr.result
}

// run executes the frame until return; handles Go panics with defers/recover.
func (fr *frame) run() {
	for {
		done := fr.runBlocks()
		if done {
			return
		}
	}
}

// runBlocks runs until return (true). If a goPanic occurs it runs deferred
// calls; if recovered, control transfers to the Recover block.
func (fr *frame) runBlocks() (done bool) {
	ex := fr.ex
	depth := ex.depth
	stackLen := len(ex.stack)
	defer func() {
		if r := recover(); r != nil {
			gp, ok := r.(goPanic)
			if !ok {
				switch r.(type) {
				case pathEnd, engineErr:
					panic(r)
				}
				var st []string
				for i := len(ex.stack) - 1; i >= 0 && i > len(ex.stack)-10; i-- {
					st = append(st, ex.stack[i].fn.String())
				}
				panic(engineErr{orig: r, stack: st, gostack: string(debug.Stack())})
			}
			// unwind interpreter bookkeeping to this frame
			ex.depth = depth
			ex.stack = ex.stack[:stackLen]
			fr.panicking = true
			fr.panicV = &gp
			fr.runDefers()
			if fr.panicking {
				panic(*fr.panicV)
			}
			// recovered
			if fr.fn.Recover != nil {
				fr.block = fr.fn.Recover
				fr.prev = nil
				done = false
				return
			}
			// no named results: return zero values
			fr.result = zeroResult(fr.fn)
			done = true
		}
	}()
	for {
		if fr.step() {
			return true
		}
	}
}

func zeroResult(fn *ssa.Function) Value {
	res := fn.Signature.Results()
	switch res.Len() {
	case 0:
		return nil
	case 1:
		return zeroValue(res.At(0).Type())
	}
	return zeroValue(res)
}

func (fr *frame) runDefers() {
	for len(fr.defers) > 0 {
		d := fr.defers[len(fr.defers)-1]
		fr.defers = fr.defers[:len(fr.defers)-1]
		fr.runDeferred(d)
	}
}

func (fr *frame) runDeferred(d deferred) {
	ex := fr.ex
	depth := ex.depth
	stackLen := len(ex.stack)
	defer func() {
		if r := recover(); r != nil {
			gp, ok := r.(goPanic)
			if !ok {
				panic(r)
			}
			ex.depth = depth
			ex.stack = ex.stack[:stackLen]
			// a new panic replaces the current one
			fr.panicking = true
			fr.panicV = &gp
		}
	}()
	ex.deferFrame = append(ex.deferFrame, fr)
	defer func() { ex.deferFrame = ex.deferFrame[:len(ex.deferFrame)-1] }()
	ex.call(d.fn, d.args, nil)
}

// step executes one basic block's instructions; returns true on return.
func (fr *frame) step() bool {
	ex := fr.ex
	b := fr.block
	for _, ins := range b.Instrs {
		ex.steps++
		if ex.steps&0xfff == 0 && !ex.cfg.Deadline.IsZero() && time.Now().After(ex.cfg.Deadline.Add(20*time.Second)) {
			panic(pathEnd{kind: endBudget, msg: "wall-clock deadline exceeded inside a path in " + ex.site()})
		}
		if ex.env.budgetAt != 0 && ex.steps > ex.env.budgetAt {
			ex.env.budgetAt = 0
			ex.hits[ex.env.budgetLabel]++
			ex.report(ex.env.budgetLabel, ex.repoSite(), "step budget exceeded (no progress / non-termination)", ex.model.Clone())
			panic(pathEnd{kind: endViolation})
		}
		if ex.steps > ex.cfg.StepBudget {
			panic(pathEnd{kind: endBudget, msg: fmt.Sprintf("instruction budget %d exceeded in %s", ex.cfg.StepBudget, ex.site())})
		}
		switch x := ins.(type) {
		case *ssa.Phi:
			// handled at block entry below
			continue
		case *ssa.DebugRef:
			continue
		case *ssa.Jump:
			fr.jump(b.Succs[0])
			return false
		case *ssa.If:
			c := fr.get(x.Cond).(*term.T)
			if ex.Branch(c) {
				fr.jump(b.Succs[0])
			} else {
				fr.jump(b.Succs[1])
			}
			return false
		case *ssa.Return:
			switch len(x.Results) {
			case 0:
				fr.result = nil
			case 1:
				fr.result = fr.get(x.Results[0])
			default:
				t := make(Tuple, len(x.Results))
				for i, r := range x.Results {
					t[i] = fr.get(r)
				}
				fr.result = t
			}
			return true
		case *ssa.Panic:
			v := fr.get(x.X)
			panic(goPanic{val: v, site: ex.repoSite(), msg: "panic: " + ex.panicString(v)})
		case *ssa.RunDefers:
			fr.runDefers()
			if fr.panicking {
				panic(*fr.panicV)
			}
		default:
			fr.exec(ins)
		}
	}
	panic("block without terminator")
}

func (fr *frame) jump(to *ssa.BasicBlock) {
	from := fr.block
	fr.prev = from
	fr.block = to
	// evaluate phis simultaneously
	var idx int = -1
	for i, p := range to.Preds {
		if p == from {
			idx = i
			break
		}
	}
	n := 0
	for _, ins := range to.Instrs {
		if _, ok := ins.(*ssa.Phi); ok {
			n++
		} else {
			break
		}
	}
	if n == 0 {
		return
	}
	vals := make([]Value, n)
	for i := 0; i < n; i++ {
		vals[i] = fr.get(to.Instrs[i].(*ssa.Phi).Edges[idx])
	}
	for i := 0; i < n; i++ {
		fr.set(to.Instrs[i].(*ssa.Phi), vals[i])
	}
	if pr := fr.ex.env.probe; pr != nil && fr.fn.Name() == pr.fn {
		fr.probeLoop(pr, to, n)
	}
}

// probeLoop hands the current values of the probed loop-carried variables to the harness closure.
func (fr *frame) probeLoop(pr *loopProbe, to *ssa.BasicBlock, n int) {
	phis, seen := pr.blocks[to]
	if !seen {
		for _, v := range pr.vars {
			var found *ssa.Phi
			for i := 0; i < n; i++ {
				if ph := to.Instrs[i].(*ssa.Phi); ph.Comment == v {
					found = ph
				}
			}
			if found == nil {
				phis = nil
				break
			}
			phis = append(phis, found)
		}
		pr.blocks[to] = phis
	}
	if phis == nil {
		return
	}
	cells := make([]Value, len(phis))
	for i, ph := range phis {
		cells[i] = fr.get(ph)
	}
	ex := fr.ex
	ex.env.probe = nil // not re-entrant
	ex.call(pr.f, []Value{Slice{b: &Backing{cells: cells}, off: 0, len: len(cells), cap: len(cells)}}, nil)
	ex.env.probe = pr
}

func (ex *Exec) panicString(v Value) string {
	switch x := v.(type) {
	case Iface:
		if x.T == nil {
			return "nil"
		}
		if s, ok := x.V.(Str); ok {
			if c, ok := s.concrete(); ok {
				return c
			}
		}
		// error value: try Error()
		{
			var out string
			found := false
			func() {
				defer func() {
					if r := recover(); r != nil {
						if _, ok := r.(goPanic); ok {
							out = "error (Error() panicked)"
							found = true
							return
						}
						panic(r)
					}
				}()
				if r, ok := ex.callMethod0(x, "Error"); ok {
					found = true
					if s, ok := r.(Str); ok {
						out, _ = s.concrete()
					}
				}
			}()
			if found {
				return out
			}
		}
		return fmt.Sprintf("%s value", x.T)
	case Str:
		c, _ := x.concrete()
		return c
	}
	return describe(v)
}

// lookupMethod finds the concrete method for a dynamic type.
func (p *Program) lookupMethod(t types.Type, pkg *types.Package, name string) *ssa.Function {
	key := types.TypeString(t, nil) + "\x00" + name
	if pkg != nil && !token.IsExported(name) {
		key += "\x00" + pkg.Path()
	}
	if v, ok := p.mcache.Load(key); ok {
		if v == nil {
			return nil
		}
		return v.(*ssa.Function)
	}
	mset := p.Prog.MethodSets.MethodSet(t)
	var sel *types.Selection
	if pkg == nil || token.IsExported(name) {
		for i := 0; i < mset.Len(); i++ {
			if mset.At(i).Obj().Name() == name {
				sel = mset.At(i)
				break
			}
		}
	} else {
		sel = mset.Lookup(pkg, name)
	}
	if sel == nil {
		p.mcache.Store(key, nil)
		return nil
	}
	fn := p.Prog.MethodValue(sel)
	p.mcache.Store(key, fn)
	return fn
}
