// Package sym: a symbolic interpreter for go/ssa.
package sym

import (
	"fmt"
	"go/types"
	"strings"

	"golang.org/x/tools/go/ssa"

	"verif/engine/term"
)

// Value is one of:
//
//	*term.T   integer (BV of the type's width) or bool (W==0), constant or symbolic
//	float64   concrete float
//	complex128
//	Str       string
//	Struct    struct value (fields)
//	Array     non-byte array value
//	*ByteArr  [N]byte array value
//	Ptr       pointer
//	Slice     non-byte slice
//	BSlice    byte slice
//	*MapV     map
//	*ChanV    channel
//	*Closure  function value
//	Iface     interface value
//	Tuple     multiple results
//	*Iter     range iterator
type Value interface{}

type Struct []Value
type Array []Value
type Tuple []Value

type Ptr struct {
	cell *Value
	barr *ByteArr
	bidx *term.T
	// element of a vector of scalar cells selected by a symbolic index (read-only use: created only when every
	// referrer of the IndexAddr is a load); a load yields an ite-chain over the elements instead of forking per index
	cells []Value
	cidx  *term.T
}

func (p Ptr) IsNil() bool { return p.cell == nil && p.barr == nil && p.cells == nil }

type Backing struct {
	cells []Value
}

type Slice struct {
	b             *Backing
	off, len, cap int
}

// LSlice is a non-byte slice whose length is symbolic; cells are materialised on demand.
type LSlice struct {
	b    *Backing
	slen *term.T
	et   types.Type
}

func (l LSlice) materialize(n int) {
	if l.b.cells == nil {
		l.b.cells = make([]Value, 0, 512)
	}
	if n > 512 {
		panic(pathEnd{kind: endUnsupported, msg: "more than 512 cells of a symbolic-length slice touched"})
	}
	for len(l.b.cells) < n {
		l.b.cells = append(l.b.cells, zeroValue(l.et))
	}
}

type BSlice struct {
	arr           *ByteArr
	off, len, cap *term.T
}

type Closure struct {
	fn      *ssa.Function
	env     []Value
	builtin *ssa.Builtin
	native  func(ex *Exec, args []Value) Value // engine-provided function value
}

type Iface struct {
	T types.Type
	V Value
}

type Str struct {
	s   string
	sym bool
	b   BSlice // when sym: immutable bytes
}

type ChanV struct {
	q      []Value
	cap    int
	closed bool
}

type mapEntry struct {
	k, v Value
	ck   string // canonical key when concrete
	conc bool
}

type MapV struct {
	entries []*mapEntry
	index   map[string]*mapEntry
	nsym    int
	kt      types.Type
}

type Iter struct {
	// map iteration
	m    *MapV
	keys []*mapEntry
	// string iteration
	s   Str
	pos int
	isS bool
}

func i64(v int64) *term.T  { return term.Const(64, uint64(v)) }
func u64(v uint64) *term.T { return term.Const(64, v) }

var zero64 = term.Const(64, 0)
var zero8 = term.Const(8, 0)

func mkStr(s string) Str { return Str{s: s} }

// typeWidth returns the bit width of an integer basic type, and signedness.
func intInfo(t types.Type) (w uint8, signed bool, ok bool) {
	b, isB := t.Underlying().(*types.Basic)
	if !isB {
		return 0, false, false
	}
	switch b.Kind() {
	case types.Int, types.Int64, types.UntypedInt, types.UntypedRune:
		return 64, true, true
	case types.Int8:
		return 8, true, true
	case types.Int16:
		return 16, true, true
	case types.Int32:
		return 32, true, true
	case types.Uint, types.Uint64, types.Uintptr:
		return 64, false, true
	case types.Uint8:
		return 8, false, true
	case types.Uint16:
		return 16, false, true
	case types.Uint32:
		return 32, false, true
	}
	return 0, false, false
}

func isByteType(t types.Type) bool {
	b, ok := t.Underlying().(*types.Basic)
	return ok && b.Kind() == types.Uint8
}

func isBool(t types.Type) bool {
	b, ok := t.Underlying().(*types.Basic)
	return ok && (b.Kind() == types.Bool || b.Kind() == types.UntypedBool)
}

func isFloat(t types.Type) bool {
	b, ok := t.Underlying().(*types.Basic)
	return ok && b.Info()&types.IsFloat != 0
}

func isString(t types.Type) bool {
	b, ok := t.Underlying().(*types.Basic)
	return ok && b.Info()&types.IsString != 0
}

func zeroValue(t types.Type) Value {
	switch u := t.Underlying().(type) {
	case *types.Basic:
		if w, _, ok := intInfo(u); ok {
			return term.Const(w, 0)
		}
		switch {
		case u.Info()&types.IsBoolean != 0:
			return term.False
		case u.Info()&types.IsFloat != 0:
			return float64(0)
		case u.Info()&types.IsComplex != 0:
			return complex128(0)
		case u.Info()&types.IsString != 0:
			return Str{}
		case u.Kind() == types.UnsafePointer:
			return Ptr{}
		case u.Kind() == types.UntypedNil:
			return Iface{}
		}
	case *types.Pointer:
		return Ptr{}
	case *types.Slice:
		if isByteType(u.Elem()) {
			return BSlice{off: zero64, len: zero64, cap: zero64}
		}
		return Slice{}
	case *types.Map:
		return (*MapV)(nil)
	case *types.Chan:
		return (*ChanV)(nil)
	case *types.Signature:
		return (*Closure)(nil)
	case *types.Interface:
		return Iface{}
	case *types.Struct:
		s := make(Struct, u.NumFields())
		for i := range s {
			s[i] = zeroValue(u.Field(i).Type())
		}
		return s
	case *types.Array:
		if isByteType(u.Elem()) {
			return newFlatZero(int(u.Len()))
		}
		a := make(Array, u.Len())
		for i := range a {
			a[i] = zeroValue(u.Elem())
		}
		return a
	case *types.Tuple:
		tt := make(Tuple, u.Len())
		for i := range tt {
			tt[i] = zeroValue(u.At(i).Type())
		}
		return tt
	}
	panic(fmt.Sprintf("zeroValue: unhandled type %s (%T)", t, t.Underlying()))
}

// copyVal copies value-typed aggregates (structs, arrays).
func copyVal(v Value) Value {
	switch x := v.(type) {
	case Struct:
		n := make(Struct, len(x))
		for i, f := range x {
			n[i] = copyVal(f)
		}
		return n
	case Array:
		n := make(Array, len(x))
		for i, f := range x {
			n[i] = copyVal(f)
		}
		return n
	case *ByteArr:
		if x == nil {
			return x
		}
		return x.clone()
	}
	return v
}

// storeInto writes v into *cell preserving the identity of aggregate backing.
func storeInto(cell *Value, v Value) {
	switch x := v.(type) {
	case Struct:
		if old, ok := (*cell).(Struct); ok && len(old) == len(x) {
			for i := range x {
				storeInto(&old[i], x[i])
			}
			return
		}
		*cell = copyVal(v)
	case Array:
		if old, ok := (*cell).(Array); ok && len(old) == len(x) {
			for i := range x {
				storeInto(&old[i], x[i])
			}
			return
		}
		*cell = copyVal(v)
	case *ByteArr:
		if old, ok := (*cell).(*ByteArr); ok && old != nil && x != nil {
			old.assign(x)
			return
		}
		*cell = copyVal(v)
	default:
		*cell = v
	}
}

func (s Str) concrete() (string, bool) {
	if !s.sym {
		return s.s, true
	}
	return "", false
}

func describe(v Value) string {
	switch x := v.(type) {
	case nil:
		return "<nil>"
	case *term.T:
		return x.String()
	case Str:
		if x.sym {
			return "symstr"
		}
		return fmt.Sprintf("%q", x.s)
	case Struct:
		var parts []string
		for _, f := range x {
			parts = append(parts, describe(f))
		}
		return "{" + strings.Join(parts, ",") + "}"
	case Iface:
		if x.T == nil {
			return "nil-iface"
		}
		return fmt.Sprintf("iface(%s:%s)", x.T, describe(x.V))
	case Ptr:
		if x.IsNil() {
			return "nil-ptr"
		}
		return "ptr"
	}
	return fmt.Sprintf("%T", v)
}
