package sym

import (
	"go/types"

	"verif/engine/term"
)

// findMethod resolves a method on a dynamic type, including the engine's own
// fake types (formatted errors, runtime errors, digests).
func (ex *Exec) findMethod(t types.Type, pkg *types.Package, name string) *Closure {
	switch t {
	case fmtErrType:
		switch name {
		case "Error":
			return &Closure{native: func(ex *Exec, a []Value) Value { return ptrStruct(a[0])[0] }}
		case "Unwrap":
			return &Closure{native: func(ex *Exec, a []Value) Value { return ptrStruct(a[0])[1] }}
		}
		return nil
	case rtErrType:
		switch name {
		case "Error":
			return &Closure{native: func(ex *Exec, a []Value) Value { return a[0] }}
		case "RuntimeError":
			return &Closure{native: func(ex *Exec, a []Value) Value { return nil }}
		}
		return nil
	case digestType:
		d := func(a []Value) *digestState { return ex.env.side[a[0].(Ptr).cell].(*digestState) }
		switch name {
		case "Write":
			return &Closure{native: func(ex *Exec, a []Value) Value {
				st := d(a)
				st.bytes = append(st.bytes, ex.byteTerms(a[1].(BSlice))...)
				return Tuple{a[1].(BSlice).len, Iface{}}
			}}
		case "Sum":
			return &Closure{native: func(ex *Exec, a []Value) Value {
				sum := ex.digestSum(d(a))
				return ex.appendSlice(a[1], BSlice{arr: sum, off: zero64, len: sum.size, cap: sum.size}, nil)
			}}
		case "Reset":
			return &Closure{native: func(ex *Exec, a []Value) Value { d(a).bytes = nil; return nil }}
		case "Size":
			return &Closure{native: func(ex *Exec, a []Value) Value { return i64(32) }}
		case "BlockSize":
			return &Closure{native: func(ex *Exec, a []Value) Value { return i64(64) }}
		}
		return nil
	}
	m := ex.P.lookupMethod(t, pkg, name)
	if m == nil {
		return nil
	}
	return &Closure{fn: m}
}

// callMethod0 calls a zero-argument method by name if it exists.
func (ex *Exec) callMethod0(recv Iface, name string) (Value, bool) {
	if recv.T == nil {
		return nil, false
	}
	m := ex.findMethod(recv.T, nil, name)
	if m == nil {
		return nil, false
	}
	if m.fn != nil && (m.fn.Signature.Params().Len() != 0) {
		return nil, false
	}
	return ex.call(m, []Value{recv.V}, nil), true
}

var _ = term.True
