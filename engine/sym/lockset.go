package sym

import (
	"fmt"
	"sort"
	"strings"

	"golang.org/x/tools/go/ssa"

	"verif/engine/term"
)

// Lockset race analysis (C16). While recording, every load/store of a heap cell, every map
// read/write and every byte-array read/write is logged with the role of the running operation and
// the set of mutexes it holds. Two accesses race if they touch the same location, come from
// different roles, at least one writes, and no common mutex protects them (a mutex protects a pair
// if both hold it and at least one holds it exclusively).

type raceAccess struct {
	loc   interface{}
	write bool
	role  int
	locks map[*Value]bool // mutex cell -> exclusive?
	site  string
}

type raceState struct {
	fresh   map[interface{}]int // locations allocated during the operation of that role (initialisation before publication)
	role    int
	held    map[*Value]bool
	log     []raceAccess
	seen    map[string]bool
	enabled bool
	order   []lockEdge // lock-order edges: a mutex acquired while another is held
	reRead  []lockEdge        // a read lock taken on an RWMutex the same operation already holds in shared mode
	excl    map[int]map[*Value]string // role -> mutexes it locks exclusively at some point (site)
}

// lockEdge: role acquired `to` (exclusively or not) while holding `from`.
type lockEdge struct {
	role         int
	from, to     *Value
	fromX, toX   bool
	site         string
}

func (ex *Exec) raceRecord(loc interface{}, write bool) {
	rs := ex.race
	if rs == nil || !rs.enabled || loc == nil {
		return
	}
	if write && rs.fresh[loc] == rs.role {
		return // initialising an object this operation allocated itself: ordered before its publication
	}
	site := ex.repoSite()
	key := fmt.Sprintf("%p|%v|%d|%s|%d", loc, write, rs.role, site, len(rs.held))
	if rs.seen[key] {
		return
	}
	rs.seen[key] = true
	locks := make(map[*Value]bool, len(rs.held))
	for k, v := range rs.held {
		locks[k] = v
	}
	rs.log = append(rs.log, raceAccess{loc: loc, write: write, role: rs.role, locks: locks, site: site})
}

// raceFresh marks a newly allocated cell (and the cells nested in it) as owned by the running operation.
func (ex *Exec) raceFresh(cell *Value) {
	rs := ex.race
	if rs == nil || !rs.enabled {
		return
	}
	rs.fresh[cell] = rs.role
	switch v := (*cell).(type) {
	case Struct:
		for i := range v {
			ex.raceFresh(&v[i])
		}
	case Array:
		for i := range v {
			ex.raceFresh(&v[i])
		}
	case *ByteArr:
		rs.fresh[v] = rs.role
	}
}

func (ex *Exec) raceLock(name string, recv Value) {
	rs := ex.race
	if rs == nil {
		return
	}
	p, ok := recv.(Ptr)
	if !ok || p.cell == nil {
		return
	}
	if strings.HasSuffix(name, ".RLock") || strings.HasSuffix(name, ".Lock") {
		x := strings.HasSuffix(name, ".Lock")
		if x {
			if rs.excl == nil {
				rs.excl = map[int]map[*Value]string{}
			}
			if rs.excl[rs.role] == nil {
				rs.excl[rs.role] = map[*Value]string{}
			}
			rs.excl[rs.role][p.cell] = ex.repoSite()
		} else if hx, ok := rs.held[p.cell]; ok && !hx {
			rs.reRead = append(rs.reRead, lockEdge{role: rs.role, from: p.cell, to: p.cell, site: ex.repoSite()})
		}
		for h, hx := range rs.held {
			if h != p.cell {
				rs.order = append(rs.order, lockEdge{role: rs.role, from: h, to: p.cell, fromX: hx, toX: x, site: ex.repoSite()})
			}
		}
	}
	switch {
	case strings.HasSuffix(name, ".RLock"):
		rs.held[p.cell] = false
	case strings.HasSuffix(name, ".Lock"):
		rs.held[p.cell] = true
	case strings.HasSuffix(name, ".RUnlock"), strings.HasSuffix(name, ".Unlock"):
		delete(rs.held, p.cell)
	}
}

func protected(a, b raceAccess) bool {
	for m, exa := range a.locks {
		if exb, ok := b.locks[m]; ok && (exa || exb) {
			return true
		}
	}
	return false
}

// raceFindings returns descriptions of racing pairs (deduplicated by the two sites).
func (rs *raceState) findings() []string {
	byLoc := map[interface{}][]raceAccess{}
	for _, a := range rs.log {
		byLoc[a.loc] = append(byLoc[a.loc], a)
	}
	set := map[string]bool{}
	for _, as := range byLoc {
		for i := 0; i < len(as); i++ {
			for j := i + 1; j < len(as); j++ {
				a, b := as[i], as[j]
				if a.role == b.role || (!a.write && !b.write) || protected(a, b) {
					continue
				}
				s1, s2 := a.site, b.site
				w1, w2 := "read", "read"
				if a.write {
					w1 = "write"
				}
				if b.write {
					w2 = "write"
				}
				if s1 > s2 {
					s1, s2, w1, w2 = s2, s1, w2, w1
				}
				set[fmt.Sprintf("%s in %s / %s in %s", w1, s1, w2, s2)] = true
			}
		}
	}
	var out []string
	for k := range set {
		out = append(out, k)
	}
	sort.Strings(out)
	return out
}

func init() {
	harnessAPI["verifConcurrently"] = func(ex *Exec, fn *ssa.Function, a []Value) Value {
		// verifConcurrently(label, fa, fb): fa and fb are operations of two different goroutines that may
		// overlap. Symbolically they run one after the other while all shared-memory accesses are recorded
		// with locksets; every unprotected conflicting pair is reported under label@<pair of sites>.
		label := argStr(ex, a[0])
		ex.hits[label]++
		ex.race = &raceState{held: map[*Value]bool{}, seen: map[string]bool{}, enabled: true, fresh: map[interface{}]int{}}
		ex.lockHook = ex.raceLock
		ex.race.role = 1
		ex.call(a[1], nil, nil)
		ex.race.role = 2
		ex.race.held = map[*Value]bool{}
		ex.call(a[2], nil, nil)
		rs := ex.race
		ex.race = nil
		ex.lockHook = nil
		// lock-order inversion between the two operations: one takes B while holding A, the other A while holding B
		// (not all four in shared mode): two goroutines can block each other forever
		dl := label
		if i := strings.Index(label, "/"); i > 0 {
			dl = label[:i] + "/lock-order-allows-progress"
		}
		ex.hits[dl]++
		inverted := ""
		for _, e1 := range rs.order {
			for _, e2 := range rs.order {
				if e1.role == 1 && e2.role == 2 && e1.from == e2.to && e1.to == e2.from && (e1.fromX || e1.toX || e2.fromX || e2.toX) {
					inverted = fmt.Sprintf("lock-order inversion: %s acquires in one order, %s in the other", e1.site, e2.site)
				}
			}
		}
		// recursive read lock: one operation takes RLock on an RWMutex it already holds in shared mode while the other
		// operation locks it exclusively - a writer arriving in between blocks the second RLock and waits for the first
		for _, e := range rs.reRead {
			if site, ok := rs.excl[3-e.role][e.from]; ok && inverted == "" {
				inverted = fmt.Sprintf("recursive read lock: %s re-acquires an RWMutex in shared mode that %s locks exclusively", e.site, site)
			}
		}
		if inverted != "" {
			ex.report(dl, inverted, inverted, ex.model.Clone())
		} else {
			ex.proved[dl]++
		}
		fs := rs.findings()
		if len(fs) == 0 {
			ex.proved[label]++
			return nil
		}
		ex.report(label, fs[0], fmt.Sprintf("%d unsynchronised conflicting access pairs: %s", len(fs), strings.Join(fs, "; ")), ex.model.Clone())
		return nil
	}
}

func init() {
	harnessAPI["verifAtEveryRelease"] = func(ex *Exec, fn *ssa.Function, a []Value) Value {
		// verifAtEveryRelease(op, observer): runs op; each time op releases a mutex (Unlock / RUnlock) the
		// observer - an operation of another goroutine that takes the same locks - is run to completion.  These
		// are exactly the points at which a lock-respecting concurrent reader can observe the shared state.
		prev := ex.lockHook
		in := false
		ex.lockHook = func(name string, recv Value) {
			if prev != nil {
				prev(name, recv)
			}
			if in || !strings.HasSuffix(name, "nlock") {
				return
			}
			in = true
			ex.call(a[1], nil, nil)
			in = false
		}
		ex.call(a[0], nil, nil)
		ex.lockHook = prev
		return nil
	}
}

var _ = term.True
