package sym

import (
	"fmt"
	"go/types"
	"os"
	"sort"
	"strings"

	"golang.org/x/tools/go/packages"
	"golang.org/x/tools/go/ssa"
	"golang.org/x/tools/go/ssa/ssautil"
)

// initAllow lists non-module packages whose initializers are executed.
var initAllow = map[string]bool{
	"io": true, "strconv": true, "bytes": true, "bufio": true, "encoding/binary": true,
	"container/list": true, "container/heap": true, "sort": true, "context": true, "math": true, "math/bits": true,
	"unicode/utf8": true, "strings": true, "slices": true, "maps": true, "cmp": true, "io/fs": true,
	"encoding/hex": true, "encoding/base64": true, "hash": true, "iter": true,
	"golang.org/x/exp/constraints": true, "unicode": false,
}

// zeroGlobalsOK lists packages whose globals may be read at their zero value although init is skipped.
var zeroGlobalsOK = map[string]bool{"errors": true, "sync": true, "sync/atomic": true, "time": true, "unicode/utf8": true, "internal/bytealg": true,
	"internal/cpu": true, "runtime": true, "internal/godebug": true, "math/rand": true, "os": true, "fmt": true, "log": true, "unicode": false}

// Load loads the given package directories (relative to repo) with an overlay and builds SSA.
func Load(repo, module string, dirs []string, overlay map[string][]byte) (*Program, []*packages.Package, error) {
	cfg := &packages.Config{
		Mode:    packages.LoadAllSyntax,
		Dir:     repo,
		Overlay: overlay,
		Env:     append(os.Environ(), "GOFLAGS=-mod=mod", "GOPROXY=off", "GOSUMDB=off", "GOTOOLCHAIN=local"),
	}
	var pats []string
	for _, d := range dirs {
		pats = append(pats, "./"+strings.TrimPrefix(d, "./"))
	}
	sort.Strings(pats)
	pkgs, err := packages.Load(cfg, pats...)
	if err != nil {
		return nil, nil, err
	}
	var errs []string
	packages.Visit(pkgs, nil, func(p *packages.Package) {
		for _, e := range p.Errors {
			errs = append(errs, e.Error())
		}
	})
	if len(errs) > 0 {
		if len(errs) > 10 {
			errs = errs[:10]
		}
		return nil, nil, fmt.Errorf("package load errors:\n%s", strings.Join(errs, "\n"))
	}
	prog, _ := ssautil.AllPackages(pkgs, ssa.InstantiateGenerics)
	prog.Build()
	p := &Program{Prog: prog, Module: module, Fset: prog.Fset}
	p.InitOK = func(path string) bool {
		if strings.HasPrefix(path, module) {
			return true
		}
		return initAllow[path]
	}
	return p, pkgs, nil
}

// Entries lists the exported harness entry functions (name prefix) in the loaded packages.
func (p *Program) Entries(prefix string) []*ssa.Function {
	var out []*ssa.Function
	for _, pkg := range p.Prog.AllPackages() {
		if !strings.HasPrefix(pkg.Pkg.Path(), p.Module) {
			continue
		}
		for name, m := range pkg.Members {
			if fn, ok := m.(*ssa.Function); ok && strings.HasPrefix(name, prefix) {
				out = append(out, fn)
			}
		}
	}
	sort.Slice(out, func(i, j int) bool { return out[i].String() < out[j].String() })
	return out
}

// namedType finds a named type by package path and name.
func (p *Program) namedType(pkgPath, name string) types.Type {
	for _, pkg := range p.Prog.AllPackages() {
		if pkg.Pkg.Path() == pkgPath {
			if o := pkg.Pkg.Scope().Lookup(name); o != nil {
				return o.Type()
			}
		}
	}
	panic("namedType: " + pkgPath + "." + name + " not found")
}
