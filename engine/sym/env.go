package sym

import (
	"fmt"
	"go/types"
	"strings"

	"golang.org/x/tools/go/ssa"

	"verif/engine/term"
)

// envState is the per-path environment model (clock, goroutines, alloc bound, side tables).
type envState struct {
	clock      *term.T
	allocBound *term.T
	allocLabel string
	runGo      bool
	goQueue    []goTask
	coros      []*coro
	side       map[interface{}]Value // hidden storage for sync.Map, atomic.Value, etc.
	hashApps   []hashApp
	timers     []*timerRec
	locks      map[*Value]int
	budgetLabel string
	budgetAt    int64
	probe       *loopProbe
}

// loopProbe: the harness observes the loop-carried variables (SSA phis, matched by source variable name) of one
// function every time control arrives at the loop header that carries all of them.
type loopProbe struct {
	fn     string
	vars   []string
	f      Value
	blocks map[*ssa.BasicBlock][]*ssa.Phi // nil entry: block does not match
}

type hashApp struct {
	fn    string
	bytes []*term.T
	res   *term.T
}

type timerRec struct {
	fn      Value
	at      *term.T
	stopped bool
	fired   bool
}

const clockBase = uint64(1_700_000_000_000_000_000)

func (e *envState) init() {
	e.clock = u64(clockBase)
	e.side = map[interface{}]Value{}
	e.locks = map[*Value]int{}
}

type Intrinsic func(ex *Exec, fn *ssa.Function, args []Value) Value

var intrinsics = map[string]Intrinsic{}

// prefix rules: package path prefix -> handler chooser
type pkgRule struct {
	prefix string
	h      func(fn *ssa.Function) Intrinsic
}

var pkgRules []pkgRule

func reg(name string, h Intrinsic) {
	// atomics and sync.Map are synchronisation primitives: their internal accesses are not data races
	if strings.HasPrefix(name, "sync/atomic.") || strings.HasPrefix(name, "(*sync/atomic.") || strings.HasPrefix(name, "(*sync.Map)") || strings.HasPrefix(name, "(*sync.Once)") || strings.HasPrefix(name, "(*sync.Pool)") {
		inner := h
		h = func(ex *Exec, fn *ssa.Function, a []Value) Value {
			if ex.race != nil && ex.race.enabled {
				ex.race.enabled = false
				defer func() { ex.race.enabled = true }()
			}
			return inner(ex, fn, a)
		}
	}
	intrinsics[name] = h
}

var noIntrinsic Intrinsic = nil

func (p *Program) intrinsic(fn *ssa.Function) Intrinsic {
	if v, ok := p.icache.Load(fn); ok {
		if v == nil {
			return nil
		}
		return v.(Intrinsic)
	}
	h := p.findIntrinsic(fn)
	if h == nil {
		p.icache.Store(fn, nil)
	} else {
		p.icache.Store(fn, h)
	}
	return h
}

func (p *Program) findIntrinsic(fn *ssa.Function) Intrinsic {
	name := fn.String()
	if h, ok := intrinsics[name]; ok {
		return h
	}
	if o := fn.Origin(); o != nil {
		if h, ok := intrinsics[o.String()]; ok {
			return h
		}
	}
	// harness API: functions named verif* (any package)
	if fn.Parent() == nil && fn.Signature.Recv() == nil && strings.HasPrefix(fn.Name(), "verif") {
		if h, ok := harnessAPI[fn.Name()]; ok {
			return h
		}
	}
	pk := fn.Pkg
	if pk == nil {
		if o := fn.Origin(); o != nil {
			pk = o.Pkg
		}
	}
	if pk == nil && fn.Parent() == nil && fn.Signature.Recv() != nil {
		// wrapper / bound method of a named type: find package by receiver
		return nil
	}
	if pk != nil {
		path := pk.Pkg.Path()
		for _, r := range pkgRules {
			if strings.HasPrefix(path, r.prefix) {
				if h := r.h(fn); h != nil {
					return h
				}
			}
		}
	}
	return nil
}

// zeroResults returns zero values for fn's results; pointer results get a fresh object.
func stubZero(ex *Exec, fn *ssa.Function, args []Value) Value {
	res := fn.Signature.Results()
	mk := func(t types.Type) Value {
		if pt, ok := t.Underlying().(*types.Pointer); ok {
			c := new(Value)
			*c = zeroValue(pt.Elem())
			return Ptr{cell: c}
		}
		return zeroValue(t)
	}
	switch res.Len() {
	case 0:
		return nil
	case 1:
		return mk(res.At(0).Type())
	}
	t := make(Tuple, res.Len())
	for i := range t {
		t[i] = mk(res.At(i).Type())
	}
	return t
}

func stubFatal(ex *Exec, fn *ssa.Function, args []Value) Value {
	msg := "fatal exit via " + shortFn(fn)
	panic(goPanic{val: Iface{T: rtErrType, V: Str{s: msg}}, site: ex.repoSite(), msg: msg})
}

// ---------------------------------------------------------------- harness API

var harnessAPI = map[string]Intrinsic{}

func argStr(ex *Exec, v Value) string {
	s, ok := v.(Str).concrete()
	if !ok {
		ex.unsupported("symbolic string argument to harness API")
	}
	return s
}

func argInt(ex *Exec, v Value) int64 {
	t := v.(*term.T)
	if !t.IsConst() {
		ex.unsupported("symbolic bound argument to harness API")
	}
	return t.Signed()
}

func init() {
	harnessAPI["verifU64"] = func(ex *Exec, fn *ssa.Function, a []Value) Value {
		name := ex.freshName(argStr(ex, a[0]))
		t := term.Sym(name, 64)
		ex.nondet = append(ex.nondet, NondetRec{Name: name, Kind: "u64", T: t})
		return t
	}
	harnessAPI["verifRange"] = func(ex *Exec, fn *ssa.Function, a []Value) Value {
		name := ex.freshName(argStr(ex, a[0]))
		lo, hi := a[1].(*term.T), a[2].(*term.T)
		if lo.IsConst() && hi.IsConst() && lo.C == hi.C {
			ex.nondet = append(ex.nondet, NondetRec{Name: name, Kind: "u64", T: lo})
			return lo
		}
		var t *term.T
		// narrow symbol when the range allows it (helps the solvers)
		if hi.IsConst() && hi.C < 1<<8 {
			t = term.ZExt(term.Sym(name, 8), 64)
		} else if hi.IsConst() && hi.C < 1<<16 {
			t = term.ZExt(term.Sym(name, 16), 64)
		} else if hi.IsConst() && hi.C < 1<<32 {
			t = term.ZExt(term.Sym(name, 32), 64)
		} else {
			t = term.Sym(name, 64)
		}
		ex.nondet = append(ex.nondet, NondetRec{Name: name, Kind: "u64", T: t})
		ex.Assume(term.BAnd(term.Uge(t, lo), term.Ule(t, hi)))
		if lo.IsConst() && hi.IsConst() {
			t.SetRange(lo.C, hi.C)
		}
		return t
	}
	harnessAPI["verifInt"] = func(ex *Exec, fn *ssa.Function, a []Value) Value {
		// signed range [lo,hi]
		name := ex.freshName(argStr(ex, a[0]))
		lo, hi := a[1].(*term.T), a[2].(*term.T)
		t := term.Sym(name, 64)
		ex.nondet = append(ex.nondet, NondetRec{Name: name, Kind: "u64", T: t})
		ex.Assume(term.BAnd(term.Sge(t, lo), term.Sle(t, hi)))
		return t
	}
	harnessAPI["verifBool"] = func(ex *Exec, fn *ssa.Function, a []Value) Value {
		name := ex.freshName(argStr(ex, a[0]))
		t := term.Sym(name, 0)
		ex.nondet = append(ex.nondet, NondetRec{Name: name, Kind: "bool", T: t})
		return t
	}
	harnessAPI["verifByte"] = func(ex *Exec, fn *ssa.Function, a []Value) Value {
		name := ex.freshName(argStr(ex, a[0]))
		t := term.Sym(name, 8)
		ex.nondet = append(ex.nondet, NondetRec{Name: name, Kind: "u64", T: t})
		return t
	}
	harnessAPI["verifBytes"] = func(ex *Exec, fn *ssa.Function, a []Value) Value {
		name := ex.freshName(argStr(ex, a[0]))
		mx := a[1].(*term.T)
		n := term.Sym(name+".len", 64)
		if mx.IsConst() && mx.C < 1<<16 {
			n = term.ZExt(term.Sym(name+".len", 16), 64)
		} else if mx.IsConst() && mx.C < 1<<32 {
			n = term.ZExt(term.Sym(name+".len", 32), 64)
		}
		arr := newUFArr(name, n)
		ex.nondet = append(ex.nondet, NondetRec{Name: name, Kind: "bytes", Len: n, Arr: &ByteArr{size: n, top: arr.top}})
		ex.Assume(term.Ule(n, toW64(mx, true)))
		if mx.IsConst() {
			n.SetRange(0, mx.C)
		}
		return BSlice{arr: arr, off: zero64, len: n, cap: n}
	}
	harnessAPI["verifBytesUF"] = func(ex *Exec, fn *ssa.Function, a []Value) Value {
		// concrete length, opaque (uninterpreted) contents
		name := ex.freshName(argStr(ex, a[0]))
		n := u64(uint64(argInt(ex, a[1])))
		arr := newUFArr(name, n)
		ex.nondet = append(ex.nondet, NondetRec{Name: name, Kind: "bytes", Len: n, Arr: &ByteArr{size: n, top: arr.top}})
		return BSlice{arr: arr, off: zero64, len: n, cap: n}
	}
	harnessAPI["verifBytesN"] = func(ex *Exec, fn *ssa.Function, a []Value) Value {
		name := ex.freshName(argStr(ex, a[0]))
		n := argInt(ex, a[1])
		arr := &ByteArr{size: u64(uint64(n)), cells: make([]*term.T, n)}
		for i := range arr.cells {
			arr.cells[i] = term.Sym(fmt.Sprintf("%s[%d]", name, i), 8)
		}
		ex.nondet = append(ex.nondet, NondetRec{Name: name, Kind: "bytes", Len: u64(uint64(n)), Arr: arr.clone()})
		return BSlice{arr: arr, off: zero64, len: arr.size, cap: arr.size}
	}
	harnessAPI["verifChoice"] = func(ex *Exec, fn *ssa.Function, a []Value) Value {
		name := ex.freshName(argStr(ex, a[0]))
		n := argInt(ex, a[1])
		k := ex.Choice(int(n))
		ex.nondet = append(ex.nondet, NondetRec{Name: name, Kind: "choice", Val: uint64(k)})
		return i64(int64(k))
	}
	harnessAPI["verifAssume"] = func(ex *Exec, fn *ssa.Function, a []Value) Value {
		ex.Assume(a[0].(*term.T))
		return nil
	}
	harnessAPI["verifAssert"] = func(ex *Exec, fn *ssa.Function, a []Value) Value {
		ex.Assert(a[0].(*term.T), argStr(ex, a[1]))
		return nil
	}
	harnessAPI["verifAssertBytesEq"] = func(ex *Exec, fn *ssa.Function, a []Value) Value {
		x, y := toBSlice(a[0]), toBSlice(a[1])
		label := argStr(ex, a[2])
		ex.Assert(term.Eq(x.len, y.len), label+"/len")
		// after the assert, lengths are equal on this path
		var c *term.T
		if x.len.IsConst() && x.len.C <= 48 {
			c = ex.bytesEqConcreteLen(x, y, x.len.C)
		} else if y.len.IsConst() && y.len.C <= 48 {
			c = ex.bytesEqConcreteLen(x, y, y.len.C)
		} else {
			// skolemised: one fresh index k < len (an arbitrary position); constraining the fresh symbol first
			// lets the memory model prune by the index interval
			if !ex.Branch(term.Ult(zero64, x.len)) {
				ex.hits[label]++
				ex.proved[label]++
				return nil
			}
			k := term.Sym(ex.freshName("sk."+label), 64)
			ex.Assume(term.Ult(k, x.len))
			if _, hi := x.len.Range(); hi > 0 {
				k.SetRange(0, hi-1)
			}
			c = term.Eq(x.at(k), y.at(k))
		}
		ex.Assert(c, label)
		return nil
	}
	harnessAPI["verifNoPanic"] = func(ex *Exec, fn *ssa.Function, a []Value) Value {
		label := argStr(ex, a[0])
		ex.hits[label]++
		ok := true
		func() {
			depth, sl := ex.depth, len(ex.stack)
			defer func() {
				if r := recover(); r != nil {
					gp, isGP := r.(goPanic)
					if !isGP {
						panic(r)
					}
					ex.depth, ex.stack = depth, ex.stack[:sl]
					ex.report(label, gp.site, gp.msg, ex.model.Clone())
					ok = false
				}
			}()
			ex.call(a[1], nil, nil)
		}()
		if !ok {
			panic(pathEnd{kind: endViolation})
		}
		ex.proved[label]++
		return nil
	}
	harnessAPI["verifCatch"] = func(ex *Exec, fn *ssa.Function, a []Value) Value {
		// runs f; returns true if it panicked (no report)
		panicked := false
		func() {
			depth, sl := ex.depth, len(ex.stack)
			defer func() {
				if r := recover(); r != nil {
					if _, isGP := r.(goPanic); !isGP {
						panic(r)
					}
					ex.depth, ex.stack = depth, ex.stack[:sl]
					panicked = true
				}
			}()
			ex.call(a[0], nil, nil)
		}()
		return term.Bool(panicked)
	}
	harnessAPI["verifObserve"] = func(ex *Exec, fn *ssa.Function, a []Value) Value {
		ex.obs = append(ex.obs, Obs{Name: argStr(ex, a[0]), v: a[1]})
		return nil
	}
	harnessAPI["verifReached"] = func(ex *Exec, fn *ssa.Function, a []Value) Value {
		ex.hits["reached:"+argStr(ex, a[0])]++
		return nil
	}
	harnessAPI["verifParam"] = func(ex *Exec, fn *ssa.Function, a []Value) Value {
		name := argStr(ex, a[0])
		if v, ok := ex.cfg.Params[name]; ok {
			return i64(v)
		}
		return a[1]
	}
	harnessAPI["verifAllocBound"] = func(ex *Exec, fn *ssa.Function, a []Value) Value {
		// verifAllocBound(label, nbytes): every later allocation must be <= nbytes; nbytes<0 disables
		ex.env.allocLabel = argStr(ex, a[0])
		b := toW64(a[1].(*term.T), true)
		if b.IsConst() && int64(b.C) < 0 {
			ex.env.allocBound = nil
		} else {
			ex.env.allocBound = b
		}
		return nil
	}
	harnessAPI["verifProbeLoop"] = func(ex *Exec, fn *ssa.Function, a []Value) Value {
		// verifProbeLoop(fn, "v1,v2", f): f(vals []int) is called at every arrival at the loop header of function fn
		// whose phi nodes carry all the named source variables (vals in the order given).  An empty fn removes the probe.
		name := argStr(ex, a[0])
		if name == "" {
			ex.env.probe = nil
			return nil
		}
		ex.env.probe = &loopProbe{fn: name, vars: strings.Split(argStr(ex, a[1]), ","), f: a[2], blocks: map[*ssa.BasicBlock][]*ssa.Phi{}}
		return nil
	}
	harnessAPI["verifStepBudget"] = func(ex *Exec, fn *ssa.Function, a []Value) Value {
		// verifStepBudget(label, n): the code run from here must finish within n interpreted
		// instructions (n<=0 disables); exceeding it is a violation (non-termination), not "inconclusive".
		ex.env.budgetLabel = argStr(ex, a[0])
		n := argInt(ex, a[1])
		if n <= 0 {
			ex.env.budgetAt = 0
		} else {
			ex.env.budgetAt = ex.steps + n
		}
		return nil
	}
	harnessAPI["verifDistinctFromRandom"] = func(ex *Exec, fn *ssa.Function, a []Value) Value {
		// the given 32-bit value differs from every value the modelled random generator has produced so far
		x := a[0].(*term.T)
		for _, r := range ex.nondet {
			if r.Kind == "env" && r.T != nil && r.T.W == x.W {
				ex.Assume(term.Ne(x, r.T))
			}
		}
		return nil
	}
	harnessAPI["verifAdvance"] = func(ex *Exec, fn *ssa.Function, a []Value) Value {
		d := toW64(a[0].(*term.T), true)
		ex.env.clock = term.Add(ex.env.clock, d)
		return nil
	}
	harnessAPI["verifSymbolic"] = func(ex *Exec, fn *ssa.Function, a []Value) Value {
		return term.True
	}
	harnessAPI["verifRunGoroutines"] = func(ex *Exec, fn *ssa.Function, a []Value) Value {
		ex.runPendingGoroutines()
		return nil
	}
	harnessAPI["verifQueueGoroutines"] = func(ex *Exec, fn *ssa.Function, a []Value) Value {
		ex.env.runGo = a[0].(*term.T).IsTrue()
		return nil
	}
	harnessAPI["verifFireTimers"] = func(ex *Exec, fn *ssa.Function, a []Value) Value {
		// fire every pending AfterFunc timer whose deadline <= now (forks on symbolic deadlines)
		n := 0
		for i := 0; i < len(ex.env.timers); i++ {
			t := ex.env.timers[i]
			if t.stopped || t.fired {
				continue
			}
			if ex.Branch(term.Sle(t.at, ex.env.clock)) {
				t.fired = true
				ex.call(t.fn, nil, nil)
				n++
			}
		}
		return i64(int64(n))
	}
}

func toBSlice(v Value) BSlice {
	switch x := v.(type) {
	case BSlice:
		return x
	case Str:
		return x.bslice()
	case *ByteArr:
		return BSlice{arr: x, off: zero64, len: x.size, cap: x.size}
	}
	panic(fmt.Sprintf("toBSlice: %T", v))
}

func init() {
	// logging has empty bodies (formatting of symbolic names would fork on every character class)
	pkgRules = append(pkgRules, pkgRule{prefix: "github.com/named-data/ndnd/fw/core", h: func(fn *ssa.Function) Intrinsic {
		switch fn.Name() {
		case "LogTrace", "LogDebug", "LogInfo", "LogWarn", "LogError":
			return nop
		case "LogFatal":
			return stubFatal
		}
		return nil
	}})
	pkgRules = append(pkgRules, pkgRule{prefix: "github.com/named-data/ndnd/std/log", h: func(fn *ssa.Function) Intrinsic {
		n := fn.Name()
		switch n {
		case "Fatal", "Fatalf":
			return stubFatal
		case "Trace", "Tracef", "Debug", "Debugf", "Info", "Infof", "Warn", "Warnf", "Error", "Errorf", "WithField", "WithFields", "WithError", "WithDuration", "Stop":
			return stubZero
		}
		return nil
	}})
}
