package sym

import (
	"fmt"
	"verif/engine/term"
)

// ByteArr is a byte array object: flat (concrete size, per-cell terms) or
// layered (functional version chain; size and indices may be symbolic).
type ByteArr struct {
	size  *term.T
	cells []*term.T
	top   *layer
}

type layerKind uint8

const (
	lZero layerKind = iota
	lUF
	lFlat
	lStore
	lCopy
)

type layer struct {
	kind   layerKind
	prev   *layer
	name   string
	cells  []*term.T
	idx    *term.T
	val    *term.T
	dst    *term.T
	srcOff *term.T
	n      *term.T
	src    *layer
	depth  int
}

const flatMax = 16384

func newFlatZero(n int) *ByteArr {
	c := make([]*term.T, n)
	for i := range c {
		c[i] = zero8
	}
	return &ByteArr{size: u64(uint64(n)), cells: c}
}

func newFlatBytes(b []byte) *ByteArr {
	c := make([]*term.T, len(b))
	for i := range c {
		c[i] = term.Const(8, uint64(b[i]))
	}
	return &ByteArr{size: u64(uint64(len(b))), cells: c}
}

func newZeroArr(size *term.T) *ByteArr {
	if size.IsConst() && size.C <= flatMax {
		return newFlatZero(int(size.C))
	}
	return &ByteArr{size: size, top: &layer{kind: lZero}}
}

func newUFArr(name string, size *term.T) *ByteArr {
	return &ByteArr{size: size, top: &layer{kind: lUF, name: name}}
}

func (a *ByteArr) clone() *ByteArr {
	n := &ByteArr{size: a.size, top: a.top}
	if a.cells != nil {
		n.cells = append([]*term.T(nil), a.cells...)
	}
	return n
}

func (a *ByteArr) assign(b *ByteArr) {
	a.size = b.size
	a.top = b.top
	if b.cells != nil {
		a.cells = append(a.cells[:0:0], b.cells...)
	} else {
		a.cells = nil
	}
}

func (a *ByteArr) promote() {
	if a.cells != nil {
		a.top = &layer{kind: lFlat, cells: a.cells}
		a.cells = nil
	}
}

// snapshot returns an immutable version of the current contents.
func (a *ByteArr) snapshot() *layer {
	if a.cells != nil {
		return &layer{kind: lFlat, cells: append([]*term.T(nil), a.cells...)}
	}
	return a.top
}

func (a *ByteArr) read(idx *term.T) *term.T {
	if a.cells != nil {
		if idx.IsConst() {
			if idx.C < uint64(len(a.cells)) {
				return a.cells[idx.C]
			}
			return zero8
		}
		return readFlat(a.cells, idx)
	}
	return readLayer(a.top, idx)
}

func readFlat(cells []*term.T, idx *term.T) *term.T {
	lo, hi := idx.Range()
	return readFlatIv(cells, idx, lo, hi)
}

func readFlatIv(cells []*term.T, idx *term.T, lo, hi uint64) *term.T {
	if idx.IsConst() {
		if idx.C < uint64(len(cells)) {
			return cells[idx.C]
		}
		return zero8
	}
	if hi >= uint64(len(cells)) {
		hi = uint64(len(cells)) - 1
	}
	if len(cells) == 0 || lo > hi {
		return zero8
	}
	// default value = the most frequent cell (typically the zero fill); only exceptions get an ite
	def := cells[hi]
	if cells[lo] == zero8 || cells[(lo+hi)/2] == zero8 {
		def = zero8
	}
	nexc := 0
	for i := lo; i <= hi; i++ {
		if cells[i] != def {
			nexc++
		}
	}
	if nexc > 4096 {
		panic(pathEnd{kind: endUnsupported, msg: fmt.Sprintf("symbolic index into large flat byte array (%d cells, index range %d..%d)", len(cells), lo, hi)})
	}
	r := def
	for i := int(hi); i >= int(lo); i-- {
		if cells[i] != def {
			r = term.Ite(term.Eq(idx, u64(uint64(i))), cells[i], r)
		}
	}
	return r
}

func readLayer(l *layer, idx *term.T) *term.T {
	lo, hi := idx.Range()
	return readLayerIv(l, idx, lo, hi)
}

// readLayerIv reads the byte at idx, known to lie in [lo, hi], from the version chain l.  The interval is narrowed
// along the way: below a copy layer that was tested and missed, the index is known to be outside its extent, which
// keeps older layers that cannot hold the byte out of the resulting term.
func readLayerIv(l *layer, idx *term.T, lo, hi uint64) *term.T {
	type pend struct {
		c *term.T
		v *term.T
	}
	var stack []pend
	var base *term.T
	for {
		switch l.kind {
		case lZero:
			base = zero8
		case lUF:
			base = term.UF(l.name, 8, idx)
		case lFlat:
			base = readFlatIv(l.cells, idx, lo, hi)
		case lStore:
			if l.idx.IsConst() && (l.idx.C < lo || l.idx.C > hi) {
				l = l.prev
				continue
			}
			c := term.Eq(idx, l.idx)
			if c.IsTrue() {
				base = l.val
			} else if c.IsFalse() {
				l = l.prev
				continue
			} else {
				stack = append(stack, pend{c, l.val})
				if l.idx.IsConst() {
					if l.idx.C == lo && lo < hi {
						lo++
					} else if l.idx.C == hi && lo < hi {
						hi--
					}
				}
				l = l.prev
				continue
			}
		case lCopy:
			if l.dst.IsConst() && l.n.IsConst() && l.srcOff.IsConst() && l.dst.C+l.n.C >= l.dst.C {
				d, e := l.dst.C, l.dst.C+l.n.C // extent [d, e)
				if l.n.C == 0 || hi < d || lo >= e {
					l = l.prev
					continue
				}
				sidx := term.Add(term.Sub(idx, l.dst), l.srcOff)
				if lo >= d && hi < e {
					base = readLayerIv(l.src, sidx, lo-d+l.srcOff.C, hi-d+l.srcOff.C)
					break
				}
				// partial overlap
				il, ih := lo, hi
				if il < d {
					il = d
				}
				if ih >= e {
					ih = e - 1
				}
				in := term.BAnd(term.Uge(idx, l.dst), term.Ult(idx, term.Const(64, e)))
				v := readLayerIv(l.src, sidx, il-d+l.srcOff.C, ih-d+l.srcOff.C)
				stack = append(stack, pend{in, v})
				// what remains for the older layers
				if lo >= d {
					lo = e
				} else if hi < e {
					hi = d - 1
				}
				l = l.prev
				continue
			}
			in := term.BAnd(term.Uge(idx, l.dst), term.Ult(term.Sub(idx, l.dst), l.n))
			if in.IsFalse() {
				l = l.prev
				continue
			}
			sidx := term.Add(term.Sub(idx, l.dst), l.srcOff)
			if in.IsTrue() {
				base = readLayer(l.src, sidx)
			} else {
				v := readLayer(l.src, sidx)
				stack = append(stack, pend{in, v})
				l = l.prev
				continue
			}
		}
		break
	}
	for i := len(stack) - 1; i >= 0; i-- {
		base = term.Ite(stack[i].c, stack[i].v, base)
	}
	return base
}

func (a *ByteArr) write(idx, v *term.T) {
	if a.cells != nil {
		if idx.IsConst() {
			if idx.C < uint64(len(a.cells)) {
				a.cells[idx.C] = v
			}
			return
		}
		if len(a.cells) <= 64 {
			for i := range a.cells {
				a.cells[i] = term.Ite(term.Eq(idx, u64(uint64(i))), v, a.cells[i])
			}
			return
		}
		a.promote()
	}
	d := 0
	if a.top != nil {
		d = a.top.depth + 1
	}
	a.top = &layer{kind: lStore, prev: a.top, idx: idx, val: v, depth: d}
}

// copyBytes implements memmove(dst[dOff:], src[sOff:], n).
func copyBytes(dst *ByteArr, dOff *term.T, src *ByteArr, sOff *term.T, n *term.T) {
	if n.IsConst() && n.C == 0 {
		return
	}
	if dst.cells != nil && src.cells != nil && dOff.IsConst() && sOff.IsConst() && n.IsConst() {
		tmp := append([]*term.T(nil), src.cells[sOff.C:sOff.C+n.C]...)
		copy(dst.cells[dOff.C:], tmp)
		return
	}
	if dst.cells != nil && dOff.IsConst() && sOff.IsConst() && n.IsConst() && n.C <= 128 {
		// flat destination, layered source, concrete extents: read cell by cell
		tmp := make([]*term.T, n.C)
		for i := uint64(0); i < n.C; i++ {
			tmp[i] = src.read(u64(sOff.C + i))
		}
		copy(dst.cells[dOff.C:], tmp)
		return
	}
	if src.cells == nil && n.IsConst() && n.C <= 64 && dOff.IsConst() && sOff.IsConst() {
		tmp := make([]*term.T, n.C)
		for i := uint64(0); i < n.C; i++ {
			tmp[i] = src.read(u64(sOff.C + i))
		}
		for i := uint64(0); i < n.C; i++ {
			dst.write(u64(dOff.C+i), tmp[i])
		}
		return
	}
	snap := src.snapshot()
	dst.promote()
	d := 0
	if dst.top != nil {
		d = dst.top.depth + 1
	}
	dst.top = &layer{kind: lCopy, prev: dst.top, dst: dOff, src: snap, srcOff: sOff, n: n, depth: d}
}

// concreteBytes returns the bytes of arr[off:off+n] if everything is concrete.
func concreteBytes(a *ByteArr, off, n *term.T) ([]byte, bool) {
	if !off.IsConst() || !n.IsConst() {
		return nil, false
	}
	if n.C == 0 {
		return []byte{}, true
	}
	if a == nil {
		return nil, false
	}
	if n.C > 1<<24 {
		return nil, false
	}
	out := make([]byte, n.C)
	for i := uint64(0); i < n.C; i++ {
		t := a.read(u64(off.C + i))
		if !t.IsConst() {
			return nil, false
		}
		out[i] = byte(t.C)
	}
	return out, true
}

func bsliceOf(b []byte) BSlice {
	n := u64(uint64(len(b)))
	return BSlice{arr: newFlatBytes(b), off: zero64, len: n, cap: n}
}

func (b BSlice) concrete() ([]byte, bool) {
	if b.arr == nil {
		if b.len.IsConst() && b.len.C == 0 {
			return []byte{}, true
		}
		return nil, false
	}
	return concreteBytes(b.arr, b.off, b.len)
}

func (b BSlice) at(i *term.T) *term.T {
	return b.arr.read(term.Add(b.off, i))
}

// strOf converts a byte slice snapshot into a string value (immutable copy).
func strOfBSlice(b BSlice) Str {
	if c, ok := b.concrete(); ok {
		return Str{s: string(c)}
	}
	// immutable copy
	na := &ByteArr{size: b.len}
	if b.len.IsConst() && b.off.IsConst() && b.len.C <= flatMax {
		na.cells = make([]*term.T, b.len.C)
		for i := range na.cells {
			na.cells[i] = b.arr.read(u64(b.off.C + uint64(i)))
		}
	} else {
		na.top = &layer{kind: lZero}
		copyBytes(na, zero64, b.arr, b.off, b.len)
	}
	return Str{sym: true, b: BSlice{arr: na, off: zero64, len: b.len, cap: b.len}}
}

func (s Str) bslice() BSlice {
	if s.sym {
		return s.b
	}
	return bsliceOf([]byte(s.s))
}

func (s Str) length() *term.T {
	if s.sym {
		return s.b.len
	}
	return u64(uint64(len(s.s)))
}
