package sym

import (
	"fmt"
	"os"
	"sort"
	"strings"
	"sync"
	"time"

	"golang.org/x/tools/go/ssa"

	"verif/engine/smt"
	"verif/engine/term"
)

type endKind int

const (
	endInfeasible endKind = iota
	endBudget
	endUnsupported
	endUnknown // solver unknown on a needed decision
	endViolation
	endStop
	endBlocked
)

func (k endKind) String() string {
	return [...]string{"infeasible", "budget", "unsupported", "solver-unknown", "violation", "stop", "blocked"}[k]
}

// pathEnd aborts the current path (not recoverable by interpreted code).
type pathEnd struct {
	kind endKind
	msg  string
}

// goPanic is a simulated Go panic.
type goPanic struct {
	val  Value
	site string
	msg  string
}

type NondetRec struct {
	Name string   `json:"name"`
	Kind string   `json:"kind"` // u64, bool, bytes, choice
	T    *term.T  `json:"-"`
	Len  *term.T  `json:"-"`
	Arr  *ByteArr `json:"-"`
	Cap  int      `json:"-"`
	Val  uint64   `json:"val"`
	Data []byte   `json:"data,omitempty"`
}

type Obs struct {
	Name string `json:"name"`
	Val  string `json:"val"`
	v    Value
}

type Violation struct {
	Harness string      `json:"harness"`
	Label   string      `json:"label"`
	Site    string      `json:"site"`
	Msg     string      `json:"msg"`
	Nondet  []NondetRec `json:"nondet"`
	Path    []uint64     `json:"path"`
	PC      []string    `json:"pc,omitempty"`
}

func (v *Violation) Key() string { return v.Label + "@" + v.Site }

type WorkItem struct {
	Prefix    []uint64
	Model     *term.Model
	NeedModel bool
}

type Config struct {
	Harness      string
	Entry        *ssa.Function
	StepBudget   int64
	MaxPaths     int
	Workers      int
	SolverMs     int
	Solvers      []smt.Kind
	Params       map[string]int64 // harness-visible parameters (verifParam)
	MaxViolPerKey int
	Deadline     time.Time
	Witnesses    int
	ReverseMaps  bool
	ReverseMapsPerRange bool
	Verbose      bool
	OnlyPath     []uint64 // debugging: follow this decision vector only
}

type PathSummary struct {
	Decisions int
	End       string
	Msg       string
}

type Witness struct {
	Nondet []NondetRec `json:"nondet"`
	Obs    []Obs       `json:"obs"`
	End    string      `json:"end"`
}

type Result struct {
	Harness      string
	Paths        int
	Completed    int
	Infeasible   int
	Decisions    int64
	Steps        int64
	Violations   []*Violation
	Inconclusive []string
	Hits         map[string]int
	Proved       map[string]int
	Funcs        map[string]int64
	Witnesses    []Witness
	Solver       smt.Stats
	Wall         time.Duration
	Samples      []string
	CacheHits    int
	Dropped      int // goroutines dropped
	Exhausted    bool
}

// modelCache is a small per-worker cache of satisfying assignments reused to
// answer feasibility questions without calling the solver.
type modelCache struct {
	ms []*term.Model
	hits, misses int
}

func (mc *modelCache) add(m *term.Model) {
	if m == nil {
		return
	}
	if len(mc.ms) >= 24 {
		copy(mc.ms, mc.ms[1:])
		mc.ms = mc.ms[:len(mc.ms)-1]
	}
	mc.ms = append(mc.ms, m.Clone())
}

func (mc *modelCache) find(q []*term.T) *term.Model {
	for i := len(mc.ms) - 1; i >= 0; i-- {
		m := mc.ms[i].Clone()
		ev := term.NewEvaluator(m)
		ok := true
		// check the newest constraint first (most likely to fail)
		for j := len(q) - 1; j >= 0; j-- {
			if ev.Eval(q[j]) == 0 {
				ok = false
				break
			}
		}
		if ok {
			mc.hits++
			return m
		}
	}
	mc.misses++
	return nil
}

// check is the solver entry point for feasibility queries "path condition and target".
// Constraint independence: only the conjuncts of the path condition that (transitively) share a symbol or an
// uninterpreted function with the target are sent to the solver; the current model, which satisfies the whole
// path condition, supplies the values of all other symbols.  The combined assignment satisfies pc and target.
func (ex *Exec) check(target *term.T, wantModel bool) (smt.Result, *term.Model) {
	if !ex.cfg.Deadline.IsZero() && time.Now().After(ex.cfg.Deadline.Add(5*time.Second)) {
		panic(pathEnd{kind: endBudget, msg: "wall-clock deadline reached before a solver query"})
	}
	var q []*term.T
	var sliceSyms map[string]struct{}
	if noSlice {
		q = append(append([]*term.T(nil), ex.pc...), target)
	} else {
		tsyms := map[string]struct{}{}
		term.CollectSyms(target, map[*term.T]struct{}{}, tsyms)
		roots := map[string]struct{}{}
		for s := range tsyms {
			roots[ex.ufFind(s)] = struct{}{}
		}
		sliceSyms = tsyms
		for i, c := range ex.pc {
			syms := ex.pcSyms[i]
			if len(syms) == 0 {
				continue
			}
			if _, ok := roots[ex.ufFind(syms[0])]; ok {
				q = append(q, c)
				for _, s := range syms {
					sliceSyms[s] = struct{}{}
				}
			}
		}
		q = append(q, target)
	}
	combine := func(m *term.Model) *term.Model {
		if sliceSyms == nil || m == nil {
			return m
		}
		r := ex.model.Clone()
		for s := range sliceSyms {
			name := s[2:]
			if s[0] == 's' {
				if v, ok := m.Syms[name]; ok {
					r.Syms[name] = v
				} else {
					delete(r.Syms, name)
				}
			} else {
				if t, ok := m.UFs[name]; ok {
					nt := make(map[string]uint64, len(t))
					for a, v := range t {
						nt[a] = v
					}
					r.UFs[name] = nt
				} else {
					delete(r.UFs, name)
				}
			}
		}
		return r
	}
	if ex.mcache != nil {
		if m := ex.mcache.find(q); m != nil {
			return smt.Sat, combine(m)
		}
	}
	r, m := ex.solver.Check(q, wantModel)
	if r == smt.Sat {
		m = combine(m)
		if ex.mcache != nil {
			ex.mcache.add(m)
		}
		if paranoid {
			ev := term.NewEvaluator(m.Clone())
			for i, c := range append(append([]*term.T(nil), ex.pc...), target) {
				if ev.Eval(c) == 0 {
					fmt.Printf("PARANOID slice: conjunct %d = %s false under the combined model\n", i, c)
					panic("paranoid")
				}
			}
		}
	}
	return r, m
}

var noSlice = os.Getenv("VERIF_NOSLICE") != ""

func (ex *Exec) ufFind(s string) string {
	for {
		p, ok := ex.ufParent[s]
		if !ok || p == s {
			return s
		}
		gp, ok2 := ex.ufParent[p]
		if ok2 && gp != p {
			ex.ufParent[s] = gp
		}
		s = p
	}
}

type Exec struct {
	mapOrder  int // 0 undecided, 1 insertion order, 2 reversed (ReverseMaps without ReverseMapsPerRange)
	mcache    *modelCache
	P         *Program
	cfg       *Config
	solver    *smt.Portfolio
	prefix    []uint64
	pos       int
	decisions []uint64
	pc        []*term.T
	pcSyms    [][]string
	ufParent  map[string]string
	model     *term.Model
	ev        *term.Evaluator
	forks     []WorkItem
	globals   map[*ssa.Global]*Value
	initDone  map[*ssa.Package]bool
	fresh     map[string]int
	nondet    []NondetRec
	obs       []Obs
	viols     []*Violation
	hits      map[string]int
	proved    map[string]int
	funcs     map[string]int64
	steps     int64
	inconc    []string
	depth     int
	stack     []*frame
	env       envState
	dropped   int
	sample    string
	facts     map[uint64][]fact
	cur       *coro
	race      *raceState
	deferFrame []*frame
	lockHook  func(name string, recv Value)
	needModel bool
}

func (ex *Exec) freshName(base string) string {
	n := ex.fresh[base]
	ex.fresh[base] = n + 1
	if n == 0 {
		return base
	}
	return fmt.Sprintf("%s#%d", base, n)
}

func (ex *Exec) evalBool(c *term.T) bool { return ex.ev.Eval(c) != 0 }

func (ex *Exec) setModel(m *term.Model) {
	ex.model = m
	ex.ev = term.NewEvaluator(m)
}

func (ex *Exec) site() string {
	for i := len(ex.stack) - 1; i >= 0; i-- {
		fn := ex.stack[i].fn
		if fn.Pkg != nil && strings.HasPrefix(fn.Name(), "verif") {
			continue
		}
		if fn.Pkg != nil || fn.Parent() != nil {
			return fn.String()
		}
	}
	return "?"
}

// repoSite returns the innermost function in the repository module on the stack
// (skipping harness functions whose names start with Verif/verif).
func (ex *Exec) repoSite() string {
	for i := len(ex.stack) - 1; i >= 0; i-- {
		fn := ex.stack[i].fn
		top := fn
		for top.Parent() != nil {
			top = top.Parent()
		}
		if top.Pkg == nil {
			if o := top.Origin(); o != nil && o.Pkg != nil {
				top = o
			} else {
				continue
			}
		}
		if !strings.HasPrefix(top.Pkg.Pkg.Path(), ex.P.Module) {
			continue
		}
		n := top.Name()
		if strings.HasPrefix(n, "Verif") || strings.HasPrefix(n, "verif") {
			continue
		}
		return shortFn(top)
	}
	return "harness"
}

func shortFn(fn *ssa.Function) string {
	s := fn.String()
	s = strings.ReplaceAll(s, "github.com/named-data/ndnd/", "")
	return s
}

type fact struct {
	t *term.T
	v bool
}

// learn records the truth of c (and of its obvious sub-formulas).
func (ex *Exec) learn(c *term.T, v bool) {
	if c.IsConst() {
		return
	}
	switch {
	case c.Op == term.OBNot:
		ex.learn(c.A[0], !v)
		return
	case c.Op == term.OBAnd && v:
		ex.learn(c.A[0], true)
		ex.learn(c.A[1], true)
	case c.Op == term.OBOr && !v:
		ex.learn(c.A[0], false)
		ex.learn(c.A[1], false)
	}
	ex.facts[c.H] = append(ex.facts[c.H], fact{c, v})
	if paranoid && !ex.needModel {
		defer ex.checkRanges(c)
	}
	// interval refinement from simple comparisons with constants
	switch c.Op {
	case term.OUlt:
		a, b := c.A[0], c.A[1]
		if v {
			if a.IsConst() && a.C != term.Mask(a.W) {
				term.Refine(b, a.C+1, term.Mask(b.W))
			}
			if b.IsConst() && b.C > 0 {
				term.Refine(a, 0, b.C-1)
			}
		} else {
			if a.IsConst() {
				term.Refine(b, 0, a.C)
			}
			if b.IsConst() {
				term.Refine(a, b.C, term.Mask(a.W))
			}
		}
	case term.OEq:
		if v && c.A[0].W != 0 {
			if c.A[1].IsConst() {
				term.Refine(c.A[0], c.A[1].C, c.A[1].C)
			} else if c.A[0].IsConst() {
				term.Refine(c.A[1], c.A[0].C, c.A[0].C)
			}
		}
	}
}

// checkRanges (paranoid mode): every interval recorded on a node of c contains the node's value under the
// current model, which satisfies the path condition.
func (ex *Exec) checkRanges(c *term.T) {
	ev := term.NewEvaluator(ex.model.Clone())
	seen := map[*term.T]bool{}
	var walk func(t *term.T)
	walk = func(t *term.T) {
		if seen[t] || t.IsConst() {
			return
		}
		seen[t] = true
		if t.W != 0 {
			lo, hi := t.Range()
			if v := ev.Eval(t); v < lo || v > hi {
				fmt.Printf("PARANOID range: node %s has interval [%d,%d] but evaluates to %d (learning %s)\n", t, lo, hi, v, c)
				panic("paranoid range")
			}
		}
		for _, a := range t.A {
			walk(a)
		}
	}
	walk(c)
}

// known reports whether the truth of c is already implied syntactically by the path condition.
func (ex *Exec) known(c *term.T) (bool, bool) {
	neg := false
	for c.Op == term.OBNot {
		c = c.A[0]
		neg = !neg
	}
	for _, f := range ex.facts[c.H] {
		if term.Equal(f.t, c) {
			return f.v != neg, true
		}
	}
	return false, false
}

func (ex *Exec) addPC(c *term.T) {
	ex.pc = append(ex.pc, c)
	ex.learn(c, true)
	set := map[string]struct{}{}
	term.CollectSyms(c, map[*term.T]struct{}{}, set)
	syms := make([]string, 0, len(set))
	for s := range set {
		syms = append(syms, s)
	}
	sort.Strings(syms)
	ex.pcSyms = append(ex.pcSyms, syms)
	if len(syms) > 0 {
		r0 := ex.ufFind(syms[0])
		for _, s := range syms[1:] {
			r := ex.ufFind(s)
			if r != r0 {
				ex.ufParent[r] = r0
			}
		}
	}
}

var traceQ = os.Getenv("VERIF_TRACEQ") != ""
var paranoid = os.Getenv("VERIF_PARANOID") != ""

func (ex *Exec) checkInv(where string) {
	if !paranoid || ex.pos < len(ex.prefix) {
		return
	}
	ev := term.NewEvaluator(ex.model.Clone())
	for i, c := range ex.pc {
		if ev.Eval(c) == 0 {
			fmt.Printf("PARANOID %s: pc[%d] = %s false under model %v\n decisions=%v prefix=%v\n", where, i, c, ex.model.Syms, ex.decisions, ex.prefix)
			panic("paranoid")
		}
	}
}

// ensureModel obtains a model of the path condition when a path was started from a bare decision vector.
func (ex *Exec) ensureModel() {
	if !ex.needModel || ex.pos < len(ex.prefix) {
		return
	}
	ex.needModel = false
	r, m := ex.solver.Check(append([]*term.T(nil), ex.pc...), true)
	if r != smt.Sat {
		panic(pathEnd{kind: endUnknown, msg: "cannot obtain a model for the given decision vector"})
	}
	ex.setModel(m)
}

// Branch decides a symbolic condition, forking the exploration.
func (ex *Exec) Branch(c *term.T) bool {
	if c.IsConst() {
		return c.C != 0
	}
	ex.ensureModel()
	if v, ok := ex.known(c); ok {
		return v
	}
	defer ex.checkInv("branch")
	if ex.pos < len(ex.prefix) {
		d := ex.prefix[ex.pos] != 0
		ex.pos++
		ex.decisions = append(ex.decisions, b2i(d))
		if d {
			ex.addPC(c)
		} else {
			ex.addPC(term.BNot(c))
		}
		return d
	}
	mv := ex.evalBool(c)
	var other *term.T
	if mv {
		other = term.BNot(c)
	} else {
		other = c
	}
	r, m := ex.check(other, true)
	if traceQ {
		fmt.Printf("Q branch %-5s %s  @%s\n", r, other, ex.site())
	}
	switch r {
	case smt.Sat:
		np := append(append([]uint64(nil), ex.decisions...), b2i(!mv))
		ex.forks = append(ex.forks, WorkItem{Prefix: np, Model: m})
	case smt.Unknown:
		ex.inconc = append(ex.inconc, "solver unknown at branch in "+ex.site())
	}
	ex.decisions = append(ex.decisions, b2i(mv))
	ex.pos++
	if mv {
		ex.addPC(c)
	} else {
		ex.addPC(term.BNot(c))
	}
	return mv
}

func b2i(b bool) uint64 {
	if b {
		return 1
	}
	return 0
}

// Choice forks n ways with a concrete result.
func (ex *Exec) Choice(n int) int {
	if n <= 1 {
		return 0
	}
	if ex.pos < len(ex.prefix) {
		d := ex.prefix[ex.pos]
		ex.pos++
		ex.decisions = append(ex.decisions, d)
		return int(d)
	}
	for k := n - 1; k >= 1; k-- {
		np := append(append([]uint64(nil), ex.decisions...), uint64(k))
		ex.forks = append(ex.forks, WorkItem{Prefix: np, Model: ex.model.Clone()})
	}
	ex.decisions = append(ex.decisions, 0)
	ex.pos++
	return 0
}

// Assume adds a constraint; ends the path if it becomes infeasible.
func (ex *Exec) Assume(c *term.T) {
	if c.IsConst() {
		if c.C == 0 {
			panic(pathEnd{kind: endInfeasible})
		}
		return
	}
	defer ex.checkInv("assume")
	ex.ensureModel()
	if v, ok := ex.known(c); ok {
		if !v {
			panic(pathEnd{kind: endInfeasible})
		}
		return
	}
	if ex.evalBool(c) {
		ex.addPC(c)
		return
	}
	r, m := ex.check(c, true)
	switch r {
	case smt.Sat:
		ex.setModel(m)
		ex.addPC(c)
	case smt.Unsat:
		panic(pathEnd{kind: endInfeasible})
	default:
		panic(pathEnd{kind: endUnknown, msg: "solver unknown in assume at " + ex.site()})
	}
}

// Concretize forks over the feasible values of t and returns a concrete one.
// Each attempt records the tried value followed by the branch outcome, so
// that replay does not depend on the model.
func (ex *Exec) Concretize(t *term.T) uint64 {
	for i := 0; ; i++ {
		if t.IsConst() {
			return t.C
		}
		if i > 4096 {
			panic(pathEnd{kind: endBudget, msg: "concretize: too many values"})
		}
		var v uint64
		if ex.pos < len(ex.prefix) {
			v = ex.prefix[ex.pos]
		} else {
			v = ex.ev.Eval(t)
		}
		ex.pos++
		ex.decisions = append(ex.decisions, v)
		if ex.Branch(term.Eq(t, term.Const(t.W, v))) {
			return v
		}
	}
}

func (ex *Exec) snapshotNondet(m *term.Model) []NondetRec {
	ev := term.NewEvaluator(m)
	out := make([]NondetRec, len(ex.nondet))
	for i, r := range ex.nondet {
		o := NondetRec{Name: r.Name, Kind: r.Kind}
		switch r.Kind {
		case "bytes":
			n := ev.Eval(r.Len)
			o.Val = n
			lim := n
			if lim > 1<<22 {
				lim = 1 << 22
			}
			o.Data = make([]byte, lim)
			for j := uint64(0); j < lim; j++ {
				o.Data[j] = byte(ev.Eval(r.Arr.readInitial(u64(j))))
			}
		case "choice":
			o.Val = r.Val
		default:
			o.Val = ev.Eval(r.T)
		}
		out[i] = o
	}
	return out
}

// readInitial reads the base (initial) contents of a nondet array.
func (a *ByteArr) readInitial(idx *term.T) *term.T {
	if a.cells != nil {
		return a.cells[idx.C]
	}
	l := a.top
	for l.prev != nil {
		l = l.prev
	}
	return readLayer(l, idx)
}

func (ex *Exec) report(label, site, msg string, m *term.Model) {
	key := label + "@" + site
	for _, v := range ex.viols {
		if v.Key() == key {
			return
		}
	}
	v := &Violation{Harness: ex.cfg.Harness, Label: label, Site: site, Msg: msg,
		Nondet: ex.snapshotNondet(m), Path: append([]uint64(nil), ex.decisions...)}
	for i, c := range ex.pc {
		if i >= 12 {
			break
		}
		v.PC = append(v.PC, c.String())
	}
	ex.viols = append(ex.viols, v)
}

// Assert checks an obligation under the current path condition.
func (ex *Exec) Assert(c *term.T, label string) {
	ex.hits[label]++
	ex.ensureModel()
	if c.IsConst() {
		if c.C != 0 {
			ex.proved[label]++
			return
		}
		switch r, _ := ex.solver.Check(append([]*term.T(nil), ex.pc...), false); r {
		case smt.Sat:
		case smt.Unsat:
			ex.inconc = append(ex.inconc, "engine inconsistency: the solver finds the path condition infeasible at a failed obligation "+label+" at "+ex.site())
			panic(pathEnd{kind: endUnknown, msg: "evaluator/solver disagreement"})
		default:
			ex.inconc = append(ex.inconc, "solver unknown when confirming a violation of "+label)
			panic(pathEnd{kind: endUnknown, msg: "unknown while confirming a violation"})
		}
		ex.report(label, ex.repoSite(), "assertion false on feasible path", ex.model.Clone())
		panic(pathEnd{kind: endViolation})
	}
	if v, ok := ex.known(c); ok && v {
		ex.proved[label]++
		return
	}
	if !ex.evalBool(c) {
		// the current model claims a violation: have the solver confirm that the whole path condition
		// together with the negated obligation is satisfiable (guards against evaluator/solver disagreement)
		q := append(append([]*term.T(nil), ex.pc...), term.BNot(c))
		switch r, _ := ex.solver.Check(q, false); r {
		case smt.Sat:
			ex.report(label, ex.repoSite(), "assertion violated: "+c.String(), ex.model.Clone())
		case smt.Unsat:
			ex.inconc = append(ex.inconc, "engine inconsistency: model evaluation and solver disagree on obligation "+label+" at "+ex.site())
			panic(pathEnd{kind: endUnknown, msg: "evaluator/solver disagreement"})
		default:
			ex.inconc = append(ex.inconc, "solver unknown when confirming a violation of "+label)
			panic(pathEnd{kind: endUnknown, msg: "unknown while confirming a violation"})
		}
	} else {
		r, m := ex.check(term.BNot(c), true)
		if traceQ {
			fmt.Printf("Q assert %-5s %s  [%s]\n", r, c, label)
		}
		switch r {
		case smt.Sat:
			// make sure the recorded nondet values come from the violating model
			ex.report(label, ex.repoSite(), "assertion violated: "+c.String(), m)
		case smt.Unsat:
			ex.proved[label]++
		default:
			ex.inconc = append(ex.inconc, "solver unknown on obligation "+label)
		}
	}
	ex.Assume(c)
}

// ---------------------------------------------------------------- exploration

type Explorer struct {
	P   *Program
	cfg *Config
	mu  sync.Mutex
	cond *sync.Cond
	work []WorkItem
	busy int
	res  *Result
	seen map[string]bool
	stop bool
	violAt time.Time
}

func Explore(p *Program, cfg *Config) *Result {
	e := &Explorer{P: p, cfg: cfg, res: &Result{Harness: cfg.Harness, Hits: map[string]int{}, Proved: map[string]int{}, Funcs: map[string]int64{}}, seen: map[string]bool{}}
	e.cond = sync.NewCond(&e.mu)
	e.work = []WorkItem{{Prefix: nil, Model: term.NewModel()}}
	if cfg.OnlyPath != nil {
		e.work = []WorkItem{{Prefix: cfg.OnlyPath, Model: term.NewModel(), NeedModel: true}}
	}
	t0 := time.Now()
	w := cfg.Workers
	if w < 1 {
		w = 1
	}
	var wg sync.WaitGroup
	for i := 0; i < w; i++ {
		wg.Add(1)
		go func() {
			defer wg.Done()
			e.worker()
		}()
	}
	wg.Wait()
	e.res.Wall = time.Since(t0)
	e.res.Exhausted = !e.stop && len(e.work) == 0
	sort.Strings(e.res.Inconclusive)
	return e.res
}

func (e *Explorer) worker() {
	kinds := e.cfg.Solvers
	if len(kinds) == 0 {
		kinds = []smt.Kind{smt.Z3New, smt.CVC5, smt.Z3, smt.CVC5Int}
		if v := os.Getenv("VERIF_SOLVERS"); v != "" {
			kinds = nil
			for _, k := range strings.Split(v, ",") {
				kinds = append(kinds, smt.Kind(k))
			}
		}
	}
	solver := smt.NewPortfolio(e.cfg.SolverMs, kinds...)
	mc := &modelCache{}
	defer func() {
		e.mu.Lock()
		e.res.CacheHits += mc.hits
		e.mu.Unlock()
	}()
	defer func() {
		st := solver.Stats()
		e.mu.Lock()
		e.res.Solver.Sat += st.Sat
		e.res.Solver.Unsat += st.Unsat
		e.res.Solver.Unknown += st.Unknown
		e.res.Solver.Time += st.Time
		e.res.Solver.Errors += st.Errors
		e.mu.Unlock()
		solver.Close()
	}()
	for {
		e.mu.Lock()
		for len(e.work) == 0 && e.busy > 0 && !e.stop {
			e.cond.Wait()
		}
		if e.stop || len(e.work) == 0 {
			e.mu.Unlock()
			e.cond.Broadcast()
			return
		}
		it := e.work[len(e.work)-1]
		e.work = e.work[:len(e.work)-1]
		e.busy++
		e.mu.Unlock()

		ex := e.runPath(solver, mc, it)

		e.mu.Lock()
		e.busy--
		e.merge(ex)
		if e.cfg.MaxPaths > 0 && e.res.Paths >= e.cfg.MaxPaths && len(e.work) > 0 {
			e.stop = true
			e.res.Inconclusive = appendUniq(e.res.Inconclusive, fmt.Sprintf("path limit %d reached with %d prefixes unexplored", e.cfg.MaxPaths, len(e.work)))
		}
		if !e.cfg.Deadline.IsZero() && time.Now().After(e.cfg.Deadline) && len(e.work) > 0 {
			e.stop = true
			e.res.Inconclusive = appendUniq(e.res.Inconclusive, fmt.Sprintf("deadline reached with %d prefixes unexplored", len(e.work)))
		}
		// a harness that has produced a counterexample is explored for another 20 s only (the run fails anyway)
		if len(e.res.Violations) > 0 {
			if e.violAt.IsZero() {
				e.violAt = time.Now()
			} else if time.Since(e.violAt) > 20*time.Second && len(e.work) > 0 && !e.stop {
				e.stop = true
				e.res.Inconclusive = appendUniq(e.res.Inconclusive, fmt.Sprintf("exploration cut short 20 s after the first counterexample (%d prefixes unexplored)", len(e.work)))
			}
		}
		e.mu.Unlock()
		e.cond.Broadcast()
	}
}

func appendUniq(l []string, s string) []string {
	for _, x := range l {
		if x == s {
			return l
		}
	}
	return append(l, s)
}

func (e *Explorer) merge(ex *Exec) {
	r := e.res
	r.Paths++
	r.Decisions += int64(len(ex.decisions))
	r.Steps += ex.steps
	r.Dropped += ex.dropped
	for k, v := range ex.hits {
		r.Hits[k] += v
	}
	for k, v := range ex.proved {
		r.Proved[k] += v
	}
	for k, v := range ex.funcs {
		r.Funcs[k] += v
	}
	for _, v := range ex.viols {
		if !e.seen[v.Key()] {
			e.seen[v.Key()] = true
			r.Violations = append(r.Violations, v)
		}
	}
	for _, s := range ex.inconc {
		r.Inconclusive = appendUniq(r.Inconclusive, s)
	}
	if e.cfg.OnlyPath == nil {
		e.work = append(e.work, ex.forks...)
	}
	if ex.sample != "" && len(r.Samples) < 8 {
		r.Samples = append(r.Samples, ex.sample)
	}
}

func (e *Explorer) runPath(solver *smt.Portfolio, mc *modelCache, it WorkItem) (ex *Exec) {
	ex = &Exec{needModel: it.NeedModel, mcache: mc, P: e.P, cfg: e.cfg, solver: solver, prefix: it.Prefix,
		globals: map[*ssa.Global]*Value{}, initDone: map[*ssa.Package]bool{}, fresh: map[string]int{},
		hits: map[string]int{}, proved: map[string]int{}, funcs: map[string]int64{}, facts: map[uint64][]fact{}, ufParent: map[string]string{}}
	ex.setModel(it.Model)
	ex.env.init()
	end := "return"
	msg := ""
	func() {
		defer func() {
			if r := recover(); r != nil {
				switch p := r.(type) {
				case pathEnd:
					end = p.kind.String()
					msg = p.msg
					switch p.kind {
					case endBudget, endUnsupported, endUnknown, endBlocked:
						ex.inconc = append(ex.inconc, fmt.Sprintf("%s: %s", p.kind, p.msg))
					}
				case goPanic:
					end = "panic"
					msg = p.msg
					ex.report(ex.cfg.Harness+"/no-panic", p.site, "uncaught panic: "+p.msg, ex.model.Clone())
				default:
					site := ex.site()
					if ee, ok := r.(engineErr); ok {
						if len(ee.stack) > 0 {
							site = ee.stack[0]
						}
						if os.Getenv("VERIF_DEBUG") != "" {
							fmt.Printf("ENGINE ERROR: %v\nssa stack:\n  %s\n%s\n", ee.orig, strings.Join(ee.stack, "\n  "), ee.gostack)
						}
						r = ee.orig
					}
					end = "engine-error"
					msg = fmt.Sprint(r)
					ex.inconc = append(ex.inconc, fmt.Sprintf("engine error in %s: %v", site, r))
				}
			}
		}()
		defer ex.abortCoros()
		ex.call(&Closure{fn: e.cfg.Entry}, nil, nil)
	}()
	e.mu.Lock()
	switch end {
	case "return":
		e.res.Completed++
		if len(e.res.Witnesses) < e.cfg.Witnesses {
			e.res.Witnesses = append(e.res.Witnesses, Witness{Nondet: ex.snapshotNondet(ex.model), Obs: ex.renderObs(), End: end})
		}
	case "infeasible":
		e.res.Infeasible++
	}
	e.mu.Unlock()
	if e.cfg.Verbose {
		fmt.Printf("  path %v -> %s %s (steps %d)\n", ex.decisions, end, msg, ex.steps)
	}
	if end == "return" || end == "violation" || end == "panic" {
		var sb strings.Builder
		for _, n := range ex.snapshotNondet(ex.model) {
			if n.Kind == "bytes" {
				fmt.Fprintf(&sb, "%s=len%d ", n.Name, n.Val)
			} else {
				fmt.Fprintf(&sb, "%s=%d ", n.Name, n.Val)
			}
			if sb.Len() > 300 {
				break
			}
		}
		ex.sample = fmt.Sprintf("%s: decisions=%d end=%s inputs{%s}", e.cfg.Harness, len(ex.decisions), end, strings.TrimSpace(sb.String()))
	}
	return ex
}

func (ex *Exec) renderObs() []Obs {
	out := make([]Obs, len(ex.obs))
	for i, o := range ex.obs {
		out[i] = Obs{Name: o.Name, Val: ex.renderValue(o.v)}
	}
	return out
}

// renderValue evaluates an observed value under the current model into a canonical string.
func (ex *Exec) renderValue(v Value) string {
	switch x := v.(type) {
	case *term.T:
		val := ex.ev.Eval(x)
		if x.W == 0 {
			if val != 0 {
				return "true"
			}
			return "false"
		}
		return fmt.Sprintf("%d", val)
	case BSlice:
		n := ex.ev.Eval(x.len)
		if n > 1<<16 {
			return fmt.Sprintf("bytes[%d]", n)
		}
		var sb strings.Builder
		for i := uint64(0); i < n; i++ {
			fmt.Fprintf(&sb, "%02x", ex.ev.Eval(x.at(u64(i))))
		}
		return sb.String()
	case Str:
		if !x.sym {
			return fmt.Sprintf("%x", x.s)
		}
		return ex.renderValue(x.b)
	case Iface:
		if x.T == nil {
			return "nil"
		}
		if t, ok := x.V.(*term.T); ok && t.W != 0 {
			if _, signed, ok := intInfo(x.T); ok && signed {
				v := ex.ev.Eval(t)
				sh := 64 - uint(t.W)
				return fmt.Sprintf("%d", int64(v<<sh)>>sh)
			}
		}
		return ex.renderValue(x.V)
	}
	return fmt.Sprintf("%T", v)
}
