package main

import (
	"fmt"
	"go/ast"
	"go/parser"
	"go/token"
	"os"
	"path/filepath"
	"regexp"
	"sort"
	"strings"
)

// genC13Models: type-directed round-trip harnesses for every generated TLV model.
// Model definitions are read from the package sources at check time (go/ast): struct
// fields carry a "//+field:<kind>[:args]" comment and a `tlv:"0x.."` tag.

type c13Field struct {
	name   string
	goType string
	kind   string
	args   []string
	hasTLV bool
}

type c13Model struct {
	name    string
	fields  []c13Field
	unsupp  string // reason if the builder cannot construct this model
}

func exprString(fset *token.FileSet, e ast.Expr) string {
	switch x := e.(type) {
	case *ast.Ident:
		return x.Name
	case *ast.StarExpr:
		return "*" + exprString(fset, x.X)
	case *ast.SelectorExpr:
		return exprString(fset, x.X) + "." + x.Sel.Name
	case *ast.ArrayType:
		return "[]" + exprString(fset, x.Elt)
	case *ast.MapType:
		return "map[" + exprString(fset, x.Key) + "]" + exprString(fset, x.Value)
	}
	return "?"
}

var fieldCmtRe = regexp.MustCompile(`//\s*\+field:(\S+)`)

func parseModels(dir string) (map[string]*c13Model, bool, error) {
	fset := token.NewFileSet()
	pkgs, err := parser.ParseDir(fset, filepath.Join(repoDir, dir), func(fi os.FileInfo) bool {
		return !strings.HasSuffix(fi.Name(), "_test.go") && fi.Name() != "zz_generated.go"
	}, parser.ParseComments)
	if err != nil {
		return nil, false, err
	}
	out := map[string]*c13Model{}
	usesTime := false
	for _, pkg := range pkgs {
		for _, f := range pkg.Files {
			for _, d := range f.Decls {
				gd, ok := d.(*ast.GenDecl)
				if !ok || gd.Tok != token.TYPE {
					continue
				}
				for _, sp := range gd.Specs {
					ts := sp.(*ast.TypeSpec)
					st, ok := ts.Type.(*ast.StructType)
					if !ok {
						continue
					}
					m := &c13Model{name: ts.Name.Name}
					for _, fl := range st.Fields.List {
						if fl.Doc == nil || len(fl.Names) == 0 {
							continue
						}
						var kind string
						for _, c := range fl.Doc.List {
							if mm := fieldCmtRe.FindStringSubmatch(c.Text); mm != nil {
								kind = mm[1]
							}
						}
						if kind == "" {
							continue
						}
						parts := strings.Split(kind, ":")
						cf := c13Field{name: fl.Names[0].Name, goType: exprString(fset, fl.Type), kind: parts[0], args: parts[1:]}
						cf.hasTLV = fl.Tag != nil && strings.Contains(fl.Tag.Value, "tlv:")
						if strings.Contains(cf.goType, "time.") {
							usesTime = true
						}
						m.fields = append(m.fields, cf)
					}
					if len(m.fields) > 0 {
						out[m.name] = m
					}
				}
			}
		}
	}
	return out, usesTime, nil
}

func hasArg(f c13Field, a string) bool {
	for _, x := range f.args {
		if x == a {
			return true
		}
	}
	return false
}

// buildValue returns Go statements that assign a symbolic value of the given kind to lhs.
func c13Build(id string, lhs, goType, kind string, args []string, tag string, models map[string]*c13Model, unsupp *string, pres string) string {
	opt := false
	for _, a := range args {
		if a == "optional" {
			opt = true
		}
	}
	elem := strings.TrimPrefix(goType, "*")
	switch kind {
	case "natural", "fixedUint":
		val := fmt.Sprintf("verif%sNat(%q, ln, 1<<64-1)", id, tag)
		if kind == "fixedUint" {
			val = fmt.Sprintf("verifU64(%q)", tag)
		}
		if opt || strings.HasPrefix(goType, "*") {
			return fmt.Sprintf("if %s {\n\tx := %s(%s)\n\t%s = &x\n}\n", pres, elem, val, lhs)
		}
		return fmt.Sprintf("%s = %s(%s)\n", lhs, elem, val)
	case "time":
		if opt || strings.HasPrefix(goType, "*") {
			return fmt.Sprintf("if %s {\n\tx := time.Duration(verif"+id+"Nat(%q, ln, 1<<40)) * time.Millisecond\n\t%s = &x\n}\n", pres, tag, lhs)
		}
		return fmt.Sprintf("%s = time.Duration(verif"+id+"Nat(%q, ln, 1<<40)) * time.Millisecond\n", lhs, tag)
	case "bool":
		return fmt.Sprintf("%s = %s\n", lhs, pres)
	case "string":
		if opt || strings.HasPrefix(goType, "*") {
			return fmt.Sprintf("if %s {\n\tx := string(verif"+id+"Bytes(%q, bl))\n\t%s = &x\n}\n", pres, tag, lhs)
		}
		return fmt.Sprintf("%s = string(verif"+id+"Bytes(%q, bl))\n", lhs, tag)
	case "binary":
		return fmt.Sprintf("if %s {\n\t%s = verif"+id+"Bytes(%q, bl)\n}\n", pres, lhs, tag)
	case "wire", "signature":
		if kind == "signature" {
			return ""
		}
		return fmt.Sprintf("if %s {\n\tif bl == 2 {\n\t\t%s = enc.Wire{verifBytesN(%q, 1), verifBytesN(%q, 2)}\n\t} else {\n\t\t%s = enc.Wire{verif"+id+"Bytes(%q, bl)}\n\t}\n}\n", pres, lhs, tag+"a", tag+"b", lhs, tag)
	case "name", "interestName":
		return fmt.Sprintf("if %s {\n\t%s = verif%sName(%q)\n}\n", pres, lhs, id, tag)
	case "struct":
		sub := elem
		if len(args) > 0 && args[0] != "optional" && args[0] != "nocopy" {
			sub = args[0]
		}
		if _, ok := models[sub]; !ok {
			*unsupp = "struct field of unknown model " + sub
			return ""
		}
		return fmt.Sprintf("if d > 0 && %s {\n\t%s = verif%sBuild_%s(d-1, ^uint64(0), ln)\n}\n", pres, lhs, id, sub)
	case "sequence":
		// sequence:<elemGoType>:<kind>[:sub]
		if len(args) < 2 {
			*unsupp = "sequence without element kind"
			return ""
		}
		et, ek := args[0], args[1]
		var sb strings.Builder
		fmt.Fprintf(&sb, "for i, n := 0, verifParam(\"seqlen\", 1); %s && i < n; i++ {\n\tvar e %s\n", pres, et)
		inner := c13Build(id, "e", et, ek, args[2:], tag+"e", models, unsupp, "true")
		if ek == "struct" {
			sub := strings.TrimPrefix(et, "*")
			if len(args) > 2 {
				sub = args[2]
			}
			if _, ok := models[sub]; !ok {
				*unsupp = "sequence of unknown model " + sub
				return ""
			}
			inner = fmt.Sprintf("e = verif%sBuild_%s(d-1, ^uint64(0), (ln+i)%%4)\n", id, sub) // elements of different encoded sizes
			fmt.Fprintf(&sb, "\tif d <= 0 {\n\t\tbreak\n\t}\n")
		}
		if ek == "name" {
			inner = fmt.Sprintf("e = verif%sName(%q)\n", id, tag+"e")
		}
		if ek == "binary" {
			inner = fmt.Sprintf("e = verif"+id+"Bytes(%q, bl)\n", tag+"e")
		}
		sb.WriteString(indent(inner))
		fmt.Fprintf(&sb, "\t%s = append(%s, e)\n}\n", lhs, lhs)
		return sb.String()
	case "map":
		// map:<keyGoType>:<keyKind>:<valTLV>:<valGoType>:<valKind>[:sub] - up to "maplen" entries with distinct keys whose
		// values differ in encoded size (width class / byte length rotate per entry)
		if len(args) < 5 || (args[1] != "string" && args[1] != "natural") {
			*unsupp = "map with key kind other than string/natural"
			return ""
		}
		kt, kk, vt, vk := args[0], args[1], args[3], args[4]
		var sb strings.Builder
		fmt.Fprintf(&sb, "if %s {\n\t%s = map[%s]%s{}\n\tfor i, n := 0, verifParam(\"maplen\", 2); i < n; i++ {\n", pres, lhs, kt, vt)
		if kk == "string" {
			fmt.Fprintf(&sb, "\t\tkb := verifBytesN(%q, 1)\n\t\tverifAssume(kb[0]%%4 == byte(i))\n\t\tk := %s(kb)\n", tag+"k", kt)
		} else {
			fmt.Fprintf(&sb, "\t\tk := %s(verif%sNat(%q, (ln+i)%%4, 1<<64-1))\n\t\tverifAssume(uint64(k)%%4 == uint64(i))\n", kt, id, tag+"k")
		}
		fmt.Fprintf(&sb, "\t\tvar e %s\n", vt)
		switch vk {
		case "struct":
			sub := strings.TrimPrefix(vt, "*")
			if len(args) > 5 {
				sub = args[5]
			}
			if _, ok := models[sub]; !ok {
				*unsupp = "map of unknown model " + sub
				return ""
			}
			fmt.Fprintf(&sb, "\t\tif d <= 0 {\n\t\t\tbreak\n\t\t}\n\t\te = verif%sBuild_%s(d-1, ^uint64(0), (ln+i)%%4)\n", id, sub)
		case "binary":
			fmt.Fprintf(&sb, "\t\te = verifBytesN(%q, (bl+i)%%3)\n", tag+"v")
		case "string":
			fmt.Fprintf(&sb, "\t\te = %s(verifBytesN(%q, (bl+i)%%3))\n", vt, tag+"v")
		case "natural":
			fmt.Fprintf(&sb, "\t\te = %s(verif%sNat(%q, (ln+i)%%4, 1<<64-1))\n", vt, id, tag+"v")
		default:
			*unsupp = "map with value kind " + vk
			return ""
		}
		fmt.Fprintf(&sb, "\t\t%s[k] = e\n\t}\n}\n", lhs)
		return sb.String()
	case "procedureArgument", "offsetMarker", "rangeMarker":
		return ""
	}
	*unsupp = "field kind " + kind
	return ""
}

func indent(s string) string {
	var sb strings.Builder
	for _, l := range strings.Split(strings.TrimRight(s, "\n"), "\n") {
		sb.WriteString("\t" + l + "\n")
	}
	return sb.String()
}

// c13Eq returns statements comparing a and b of the given kind.
func c13Eq(id string, a, b, goType, kind string, args []string, label string, models map[string]*c13Model) string {
	ptr := strings.HasPrefix(goType, "*")
	for _, x := range args {
		if x == "optional" {
			ptr = true
		}
	}
	switch kind {
	case "natural", "fixedUint", "time":
		if ptr {
			return fmt.Sprintf("verifAssert((%s == nil) == (%s == nil), %q)\nif %s != nil && %s != nil {\n\tverifAssert(*%s == *%s, %q)\n}\n", a, b, label+"/presence", a, b, a, b, label)
		}
		return fmt.Sprintf("verifAssert(%s == %s, %q)\n", a, b, label)
	case "bool":
		return fmt.Sprintf("verifAssert(%s == %s, %q)\n", a, b, label)
	case "string":
		if ptr {
			return fmt.Sprintf("verifAssert((%s == nil) == (%s == nil), %q)\nif %s != nil && %s != nil {\n\tverifAssertBytesEq([]byte(*%s), []byte(*%s), %q)\n}\n", a, b, label+"/presence", a, b, a, b, label)
		}
		return fmt.Sprintf("verifAssertBytesEq([]byte(%s), []byte(%s), %q)\n", a, b, label)
	case "binary":
		return fmt.Sprintf("verifAssert((%s == nil) == (%s == nil), %q)\nverifAssertBytesEq(%s, %s, %q)\n", a, b, label+"/presence", a, b, label)
	case "wire":
		return fmt.Sprintf("verifAssert((%s == nil) == (%s == nil), %q)\nverifAssertBytesEq(%s.Join(), %s.Join(), %q)\n", a, b, label+"/presence", a, b, label)
	case "signature":
		return ""
	case "name", "interestName":
		return fmt.Sprintf("verifAssert((%s == nil) == (%s == nil), %q)\nverif%sNameEq(%s, %s, %q)\n", a, b, label+"/presence", id, a, b, label)
	case "struct":
		sub := strings.TrimPrefix(goType, "*")
		if len(args) > 0 && args[0] != "optional" && args[0] != "nocopy" {
			sub = args[0]
		}
		return fmt.Sprintf("verifAssert((%s == nil) == (%s == nil), %q)\nif %s != nil && %s != nil {\n\tverif%sEq_%s(%s, %s)\n}\n", a, b, label+"/presence", a, b, id, sub, a, b)
	case "map":
		vt, vk := args[3], args[4]
		var sb strings.Builder
		fmt.Fprintf(&sb, "verifAssert(len(%s) == len(%s), %q)\nfor k, va := range %s {\n\tvb, ok := %s[k]\n\tverifAssert(ok, %q)\n\tif !ok {\n\t\tcontinue\n\t}\n", a, b, label+"/count", a, b, label+"/map-key-present")
		sb.WriteString(indent(c13Eq(id, "va", "vb", vt, vk, args[5:], label, models)))
		sb.WriteString("}\n")
		return sb.String()
	case "sequence":
		et, ek := args[0], args[1]
		var sb strings.Builder
		fmt.Fprintf(&sb, "verifAssert(len(%s) == len(%s), %q)\nfor i := 0; i < len(%s) && i < len(%s); i++ {\n", a, b, label+"/count", a, b)
		sb.WriteString(indent(c13Eq(id, a+"[i]", b+"[i]", et, ek, args[2:], label, models)))
		sb.WriteString("}\n")
		return sb.String()
	}
	return ""
}

func genC13Models(id string) ([]harnessFile, error) {
	gens, err := scanGenerated()
	if err != nil {
		return nil, err
	}
	var out []harnessFile
	for _, gm := range gens {
		if len(gm.names) == 0 {
			continue
		}
		models, usesTime, err := parseModels(gm.dir)
		if err != nil {
			return nil, err
		}
		// models that have a generated parser
		has := map[string]bool{}
		for _, n := range gm.names {
			has[n] = true
		}
		var names []string
		for n := range models {
			if has[n] {
				names = append(names, n)
			}
		}
		sort.Strings(names)
		var sb strings.Builder
		fmt.Fprintf(&sb, "//verif:dir %s\npackage %s\n\nimport (\n", gm.dir, gm.pkg)
		if usesTime {
			sb.WriteString("\t\"time\"\n")
		}
		sb.WriteString("\tenc \"github.com/named-data/ndnd/std/encoding\"\n)\n\n")
		if usesTime {
			sb.WriteString("var _ = time.Millisecond\n")
		}
		sb.WriteString(strings.ReplaceAll(c13Common, "ID", id))
		// determine unsupported models (transitively)
		builders := map[string]string{}
		eqs := map[string]string{}
		for _, n := range names {
			m := models[n]
			var b, e strings.Builder
			for fi, f := range m.fields {
				uns := ""
				st := c13Build(id, "v."+f.name, f.goType, f.kind, f.args, n+"."+f.name, models, &uns, fmt.Sprintf("mask&(1<<%d) != 0", fi))
				if uns != "" {
					m.unsupp = uns
					break
				}
				b.WriteString(indent(st))
				e.WriteString(indent(c13Eq(id, "a."+f.name, "b."+f.name, f.goType, f.kind, f.args, id+"/model/decoded-field-equals", models)))
			}
			builders[n] = b.String()
			eqs[n] = e.String()
		}
		// propagate unsupported through struct references
		changed := true
		for changed {
			changed = false
			for _, n := range names {
				m := models[n]
				if m.unsupp != "" {
					continue
				}
				for _, f := range m.fields {
					sub := ""
					if f.kind == "struct" {
						sub = strings.TrimPrefix(f.goType, "*")
						if len(f.args) > 0 && f.args[0] != "optional" && f.args[0] != "nocopy" {
							sub = f.args[0]
						}
					} else if f.kind == "sequence" && len(f.args) > 1 && f.args[1] == "struct" {
						sub = strings.TrimPrefix(f.args[0], "*")
					} else if f.kind == "map" && len(f.args) > 4 && f.args[4] == "struct" {
						sub = strings.TrimPrefix(f.args[3], "*")
						if len(f.args) > 5 {
							sub = f.args[5]
						}
					}
					if sub != "" {
						if sm, ok := models[sub]; !ok || sm.unsupp != "" || !has[sub] {
							m.unsupp = "depends on model " + sub + " that the builder cannot construct"
							changed = true
						}
					}
				}
			}
		}
		for _, n := range names {
			m := models[n]
			if m.unsupp != "" {
				fmt.Fprintf(&sb, "// model %s: not constructed by the type-directed builder (%s)\n\n", n, m.unsupp)
				continue
			}
			fmt.Fprintf(&sb, "func verif%sBuild_%s(d int, mask uint64, ln int) *%s {\n\tv := &%s{}\n\tbl := ln\n\tif bl > 2 {\n\t\tbl = 2\n\t}\n\t_, _, _, _ = d, mask, ln, bl\n%s\treturn v\n}\n\n", id, n, n, n, builders[n])
			fmt.Fprintf(&sb, "func verif%sEq_%s(a, b *%s) {\n%s}\n\n", id, n, n, eqs[n])
			modelSrc := fmt.Sprintf(`func Verif%s_Model_%s_%s() {
	v := verif%sBuild_%s(verifParam("modeldepth", 1), verif%sMask(%d), verifChoice("len", 4))
	var wire enc.Wire
	announced := 0
	verifNoPanic("%s/model/encode-no-panic", func() {
		e := %sEncoder{}
		/*PREINIT*/
		e.Init(v)
		announced = int(e.length)
		wire = e.Encode(v)
		/*POSTENCODE*/
	})
	verifAssert(wire != nil, "%s/model/encodes")
	b := wire.Join()
	verifAssert(len(b) == announced, "%s/model/encoded-length-equals-announced")
	parse := func(in []byte, ic bool) (*%s, error) {
		ctx := %sParsingContext{}
		ctx.Init()
		return ctx.Parse(enc.NewBufferReader(in), ic)
	}
	var v2 *%s
	var err error
	verifNoPanic("%s/model/decode-no-panic", func() { v2, err = parse(b, false) })
	verifAssert(err == nil && v2 != nil, "%s/model/decodes")
	verif%sEq_%s(v, v2)
	/*SIGEQ*/
	// an unrecognised element inserted at a top-level boundary
	bounds := verif%sBoundaries(b)
	at := bounds[verifChoice("insertAt", len(bounds))]
	switch verifChoice("unknown", 3) {
	case 0: // non-critical (even, >= 32): skipped, every other field unchanged
		in := verif%sInsert(b, at, []byte{0xfd, 0xff, 0xfe, 0x01, verifByte("unk")})
		var v3 *%s
		verifNoPanic("%s/model/decode-no-panic", func() { v3, err = parse(in, false) })
		verifAssert(err == nil && v3 != nil, "%s/model/unknown-noncritical-accepted")
		verif%sEq_%s(v, v3)
	case 1: // critical (odd): rejected
		in := verif%sInsert(b, at, []byte{0xfd, 0xff, 0xff, 0x00})
		verifNoPanic("%s/model/decode-no-panic", func() { _, err = parse(in, false) })
		verifAssert(err != nil, "%s/model/unknown-critical-rejected")
	case 2: // critical but the caller asked to ignore it
		in := verif%sInsert(b, at, []byte{0xfd, 0xff, 0xff, 0x00})
		var v3 *%s
		verifNoPanic("%s/model/decode-no-panic", func() { v3, err = parse(in, true) })
		verifAssert(err == nil && v3 != nil, "%s/model/unknown-critical-ignored-on-request")
		verif%sEq_%s(v, v3)
	}
}

`, id, dirTag(gm.dir), n, id, n, id, len(m.fields), id, n, id, id, n, n, n, id, id, id, n, id, id, n, id, id, id, n, id, id, id, id, n, id, id, id, n)
			// a signature field is not part of the value: the encoder reserves SignatureValue_estLen bytes and the caller
			// puts the signature into the wire segment afterwards; the harness does the same with symbolic bytes
			pre, post, sigeq := "", "", ""
			for _, f := range m.fields {
				if f.kind == "signature" {
					pre += fmt.Sprintf("sigLen_%s = 3 * verifChoice(\"siglen\", 2)\n\t\te.%s_estLen = uint(sigLen_%s)\n", f.name, f.name, f.name)
					post += fmt.Sprintf("if wire != nil && e.%s_wireIdx >= 0 {\n\t\t\tsig_%s = verifBytesN(\"sigvalue\", sigLen_%s)\n\t\t\twire[e.%s_wireIdx] = sig_%s\n\t\t}\n", f.name, f.name, f.name, f.name, f.name)
					sigeq += fmt.Sprintf("verifAssert((sigLen_%s > 0) == (v2.%s != nil), \"%s/model/decoded-field-equals/presence\")\n\tverifAssertBytesEq(v2.%s.Join(), sig_%s, \"%s/model/decoded-field-equals\")\n", f.name, f.name, id, f.name, f.name, id)
					modelSrc = strings.Replace(modelSrc, "\tvar wire enc.Wire\n", fmt.Sprintf("\tvar wire enc.Wire\n\tsigLen_%s := 0\n\tvar sig_%s []byte\n", f.name, f.name), 1)
				}
			}
			modelSrc = strings.Replace(modelSrc, "/*PREINIT*/", pre, 1)
			modelSrc = strings.Replace(modelSrc, "/*POSTENCODE*/", post, 1)
			modelSrc = strings.Replace(modelSrc, "/*SIGEQ*/", sigeq, 1)
			sb.WriteString(modelSrc)
			fmt.Fprintf(&sb, `func Verif%s_Long_%s_%s() {
	verif%sLongLeft = 1
	v := verif%sBuild_%s(verifParam("modeldepth", 1), verif%sMaskLong(%d), 0)
	if verif%sLongLeft > 0 {
		return // no byte-valued field in this value
	}
	var wire enc.Wire
	announced := 0
	verifNoPanic("%s/long/encode-no-panic", func() {
		e := %sEncoder{}
		e.Init(v)
		announced = int(e.length)
		wire = e.Encode(v)
	})
	verifAssert(wire != nil, "%s/long/encodes")
	b := wire.Join()
	verifAssert(len(b) == announced, "%s/long/encoded-length-equals-announced")
	var v2 *%s
	var err error
	verifNoPanic("%s/long/decode-no-panic", func() {
		ctx := %sParsingContext{}
		ctx.Init()
		v2, err = ctx.Parse(enc.NewBufferReader(b), false)
	})
	verifAssert(err == nil && v2 != nil, "%s/long/decodes")
	if err == nil && v2 != nil {
		verif%sEq_%s(v, v2)
	}
}

`, id, dirTag(gm.dir), n, id, id, n, id, len(m.fields), id, id, n, id, id, n, id, n, id, id, n)
		}
		out = append(out, harnessFile{path: filepath.Join(verifDir, "harness", id, "gen_model_"+dirTag(gm.dir)+".go"), dir: gm.dir, pkgName: gm.pkg, src: []byte(sb.String())})
	}
	return out, nil
}

const c13Common = `// generated at check time by vcheck (genC13Models)

// "long" mode: the next byte-valued field (string, binary, wire, name component) gets a symbolic length
// 0..70000 with opaque contents, so that element lengths cross the 1/3/5-byte length-form boundaries
var verifIDLongLeft int

func verifIDBytes(tag string, bl int) []byte {
	if verifIDLongLeft > 0 {
		verifIDLongLeft--
		return verifBytes(tag, 70000)
	}
	return verifBytesN(tag, bl)
}

func verifIDMaskLong(n int) uint64 {
	k := verifChoice("mask", n+1)
	if k == 0 {
		return uint64(1)<<uint(n) - 1
	}
	return 1 << uint(k-1)
}

func verifIDName(tag string) enc.Name {
	if verifIDLongLeft > 0 {
		verifIDLongLeft--
		return enc.Name{enc.Component{Typ: enc.TypeGenericNameComponent, Val: verifBytes(tag+"comp", 70000)}}
	}
	n := make(enc.Name, verifChoice(tag+"ncomp", 3))
	for i := range n {
		n[i] = enc.Component{Typ: enc.TypeGenericNameComponent, Val: verifBytesN(tag+"comp", verifChoice(tag+"complen", 2))}
	}
	return n
}

func verifIDNameEq(a, b enc.Name, label string) {
	verifAssert(len(a) == len(b), label+"/name-length")
	for i := 0; i < len(a) && i < len(b); i++ {
		verifAssert(a[i].Typ == b[i].Typ, label+"/name-component-type")
		verifAssertBytesEq(a[i].Val, b[i].Val, label+"/name-component-value")
	}
}

// natural numbers by width class (0: 1 byte, 1: 2 bytes, 2: 4 bytes, 3: 8 bytes), so that one run fixes the encoded widths
func verifIDNat(tag string, cls int, max uint64) uint64 {
	switch cls {
	case 0:
		return verifRange(tag, 0, 255)
	case 1:
		return verifRange(tag, 256, 65535)
	case 2:
		return verifRange(tag, 65536, 1<<32-1)
	}
	return verifRange(tag, 1<<32, max)
}

// presence masks: none, all, each field alone, all but one field (+ every pair when "pairs" is set)
func verifIDMask(n int) uint64 {
	all := uint64(1)<<uint(n) - 1
	npairs := 0
	if verifParam("pairs", 0) != 0 {
		npairs = n * (n - 1) / 2
	}
	k := verifChoice("mask", 2*n+2+npairs)
	switch {
	case k == 0:
		return 0
	case k == 1:
		return all
	case k < 2+n:
		return 1 << uint(k-2)
	case k < 2+2*n:
		return all &^ (1 << uint(k-2-n))
	}
	k -= 2 + 2*n
	for i := 0; i < n; i++ {
		for j := i + 1; j < n; j++ {
			if k == 0 {
				return 1<<uint(i) | 1<<uint(j)
			}
			k--
		}
	}
	return all
}

// top-level element boundaries of a well-formed encoding (independent TLV walk)
func verifIDBoundaries(b []byte) []int {
	out := []int{0}
	pos := 0
	for pos < len(b) {
		_, n1 := enc.ParseTLNum(b[pos:])
		l, n2 := enc.ParseTLNum(b[pos+n1:])
		pos += n1 + n2 + int(l)
		out = append(out, pos)
	}
	return out
}

func verifIDInsert(b []byte, at int, elem []byte) []byte {
	out := make([]byte, 0, len(b)+len(elem))
	out = append(out, b[:at]...)
	out = append(out, elem...)
	out = append(out, b[at:]...)
	return out
}

`

func init() {
	generators["c13models"] = genC13Models
}
