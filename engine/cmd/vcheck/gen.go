package main

import (
	"fmt"
	"os"
	"path/filepath"
	"regexp"
	"sort"
	"strings"
)

// Harness generators: they scan /repo's generated TLV packages at check time and
// emit one harness per model (nothing is listed by hand).

type genModel struct {
	dir   string // repo-relative package dir
	pkg   string
	names []string // model names (X for XParsingContext)
	src   string
}

var ctxParseRe = regexp.MustCompile(`(?m)^func \(context \*(\w+)ParsingContext\) Parse\(reader enc\.ParseReader, ignoreCritical bool\)`)

func scanGenerated() ([]genModel, error) {
	var out []genModel
	err := filepath.Walk(repoDir, func(p string, info os.FileInfo, err error) error {
		if err != nil {
			return nil
		}
		if info.IsDir() && (info.Name() == ".git" || info.Name() == "node_modules") {
			return filepath.SkipDir
		}
		if info.Name() != "zz_generated.go" {
			return nil
		}
		src, err := os.ReadFile(p)
		if err != nil {
			return err
		}
		pm := pkgRe.FindSubmatch(src)
		if pm == nil {
			return nil
		}
		rel, _ := filepath.Rel(repoDir, filepath.Dir(p))
		gm := genModel{dir: rel, pkg: string(pm[1]), src: string(src)}
		for _, m := range ctxParseRe.FindAllSubmatch(src, -1) {
			gm.names = append(gm.names, string(m[1]))
		}
		sort.Strings(gm.names)
		out = append(out, gm)
		return nil
	})
	sort.Slice(out, func(i, j int) bool { return out[i].dir < out[j].dir })
	return out, err
}

func dirTag(dir string) string {
	return strings.NewReplacer("/", "_", "-", "_", ".", "_").Replace(filepath.Base(dir))
}

// genC04Parsers emits, per generated package, a harness per model that feeds arbitrary bytes to its parser.
func genC04Parsers(id string) ([]harnessFile, error) {
	models, err := scanGenerated()
	if err != nil {
		return nil, err
	}
	var out []harnessFile
	for _, gm := range models {
		if len(gm.names) == 0 {
			continue
		}
		var sb strings.Builder
		fmt.Fprintf(&sb, "//verif:dir %s\npackage %s\n\nimport enc \"github.com/named-data/ndnd/std/encoding\"\n\n", gm.dir, gm.pkg)
		sb.WriteString(`// generated at check time by vcheck (genC04Parsers): arbitrary input into every generated parser.
// shape 0: n arbitrary bytes; shape 1: one TLV header whose type and length are arbitrary
// 64-bit numbers (each in a solver-chosen 1/3/5/9-byte form) followed by a few arbitrary bytes;
// shape 2: one complete small element, then a header with a one-byte type and an arbitrary 64-bit length.
func verif` + id + `Num(name string, buf []byte, forms int) []byte {
	v := verifU64(name)
	switch verifChoice(name+"form", forms) {
	case 0:
		verifAssume(v <= 0xfc)
		return append(buf, byte(v))
	case 1:
		verifAssume(v <= 0xffff)
		return append(buf, 0xfd, byte(v>>8), byte(v))
	case 2:
		verifAssume(v <= 0xffffffff)
		return append(buf, 0xfe, byte(v>>24), byte(v>>16), byte(v>>8), byte(v))
	}
	return append(buf, 0xff, byte(v>>56), byte(v>>48), byte(v>>40), byte(v>>32), byte(v>>24), byte(v>>16), byte(v>>8), byte(v))
}

func verif` + id + `Parse(parse func(r enc.ParseReader, ic bool), nshapes int) {
	var in []byte
	shape := verifChoice("shape", nshapes)
	switch shape {
	case 0:
		n := verifParam("parsebytes", 5)
		in = verifBytesN("in", verifChoice("len", n+1))
	case 1:
		in = verif` + id + `Num("T", make([]byte, 0, 32), 2) // types: 1- and 3-byte forms (5/9-byte type numbers are covered by shape 0)
		in = verif` + id + `Num("L", in, 4)
		in = append(in, verifBytesN("tail", verifChoice("taillen", verifParam("tlvtail", 2)+1))...)
	case 2:
		// a complete small element (arbitrary type, 0..1 value bytes) followed by a header with an arbitrary one-byte type
		// and an arbitrary 64-bit length: the second element of a structure, the value that follows a map key
		in = append(make([]byte, 0, 40), verifByte("t1"))
		l1 := verifChoice("l1", 2)
		in = append(in, byte(l1))
		in = append(in, verifBytesN("v1", l1)...)
		in = append(in, verifByte("t2"))
		in = verif` + id + `Num("L", in, 4)
	}
	ic := verifBool("ignoreCritical")
	verifAllocBound("` + id + `/parse/alloc-bound", 64*len(in)+4096)
	verifStepBudget("` + id + `/parse/terminates", 400000)
	if shape == 2 || verifChoice("reader", 2) == 0 { // shape 2: contiguous reader only (cost)
		verifNoPanic("` + id + `/parse/no-panic", func() { parse(enc.NewBufferReader(in), ic) })
	} else {
		cut := int(verifRange("cut", 0, uint64(len(in)))) // symbolic split point
		verifNoPanic("` + id + `/parse/no-panic", func() { parse(enc.NewWireReader(enc.Wire{in[:cut], in[cut:]}), ic) })
	}
}

`)
		for _, m := range gm.names {
			// the third input shape (small element + header with arbitrary length) only for parsers that decode a TLV header
			// of their own inside the loop body (map fields): it multiplies the cost of the large packet models by 30
			nshapes := 2
			if i := strings.Index(gm.src, "func (context *"+m+"ParsingContext) Parse("); i >= 0 {
				body := gm.src[i+1:]
				if j := strings.Index(body, "\nfunc "); j >= 0 {
					body = body[:j]
				}
				if strings.Contains(body, "pseudoValue := struct") {
					nshapes = 3
				}
			}
			fmt.Fprintf(&sb, "func Verif%s_Parse_%s_%s() {\n\tverif%sParse(func(r enc.ParseReader, ic bool) {\n\t\tctx := %sParsingContext{}\n\t\tctx.Init()\n\t\tctx.Parse(r, ic)\n\t}, %d)\n}\n\n", id, dirTag(gm.dir), m, id, m, nshapes)
		}
		out = append(out, harnessFile{path: filepath.Join(verifDir, "harness", id, "gen_parse_"+dirTag(gm.dir)+".go"), dir: gm.dir, pkgName: gm.pkg, src: []byte(sb.String())})
	}
	return out, nil
}

var generators = map[string]func(id string) ([]harnessFile, error){
	"c04parsers": genC04Parsers,
}
