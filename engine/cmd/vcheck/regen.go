package main

import (
	"bytes"
	"encoding/json"
	"fmt"
	"os"
	"os/exec"
	"path/filepath"
)

// regenCheck re-runs the repository's TLV code generator on every package that carries a
// zz_generated.go and compares its output with the checked-in file (byte comparison: the
// statement "the checked-in generated code is exactly what the generator produces" is decided
// exactly by it; this sub-check is not a solver query and is reported as such in evidence).
type regenResult struct {
	Dir     string `json:"dir"`
	Same    bool   `json:"identical"`
	Err     string `json:"error,omitempty"`
	Replay  string `json:"-"`
}

func regenOne(tmp, bin, dir string) regenResult {
	out := filepath.Join(tmp, "regen_"+dirTag(dir)+".go")
	cmd := exec.Command(bin, "-input", filepath.Join(repoDir, dir), "-output", out)
	cmd.Dir = filepath.Join(repoDir, dir)
	if b, err := cmd.CombinedOutput(); err != nil {
		return regenResult{Dir: dir, Err: fmt.Sprintf("generator failed: %v: %s", err, tail(string(b), 300))}
	}
	fresh, err := os.ReadFile(out)
	if err != nil {
		return regenResult{Dir: dir, Err: err.Error()}
	}
	old, err := os.ReadFile(filepath.Join(repoDir, dir, "zz_generated.go"))
	if err != nil {
		return regenResult{Dir: dir, Err: err.Error()}
	}
	return regenResult{Dir: dir, Same: bytes.Equal(fresh, old)}
}

func buildGenerator(tmp string) (string, error) {
	bin := filepath.Join(tmp, "gondn_tlv_gen")
	cmd := exec.Command("go", "build", "-o", bin, "./std/cmd/gondn_tlv_gen")
	cmd.Dir = repoDir
	cmd.Env = append(os.Environ(), "GOFLAGS=-mod=mod", "GOPROXY=off", "GOSUMDB=off", "GOTOOLCHAIN=local")
	if b, err := cmd.CombinedOutput(); err != nil {
		return "", fmt.Errorf("cannot build generator: %v: %s", err, tail(string(b), 500))
	}
	return bin, nil
}

func (r *runner) regenCheck() ([]regenResult, error) {
	bin, err := buildGenerator(r.tmp)
	if err != nil {
		return nil, err
	}
	gens, err := scanGenerated()
	if err != nil {
		return nil, err
	}
	var out []regenResult
	for _, g := range gens {
		res := regenOne(r.tmp, bin, g.dir)
		if !res.Same && res.Err == "" {
			dir := filepath.Join(verifDir, "replays", r.id)
			os.MkdirAll(dir, 0o755)
			res.Replay = filepath.Join(dir, "regen-"+dirTag(g.dir)+".json")
			data, _ := json.MarshalIndent(map[string]string{"kind": "regen", "dir": g.dir, "property": r.id, "label": r.id + "/generator/checked-in-equals-regenerated"}, "", " ")
			os.WriteFile(res.Replay, data, 0o644)
		}
		out = append(out, res)
	}
	return out, nil
}

func replayRegen(path string, m map[string]string) int {
	tmp, _ := os.MkdirTemp("", "vcheck-regen-")
	defer os.RemoveAll(tmp)
	bin, err := buildGenerator(tmp)
	if err != nil {
		fmt.Println(err)
		return 2
	}
	res := regenOne(tmp, bin, m["dir"])
	if res.Err != "" {
		fmt.Println("regeneration error:", res.Err)
		return 2
	}
	if !res.Same {
		fmt.Printf("checked-in %s/zz_generated.go differs from the generator's output\nVIOLATION property=%s replay=%s\n", m["dir"], m["property"], path)
		return 1
	}
	fmt.Println("checked-in file is identical to the generator's output")
	return 0
}
