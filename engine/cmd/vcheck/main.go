// vcheck: solver-based checks of /repo against the properties in /verif/properties.jsonl.
package main

import (
	"crypto/sha1"
	"encoding/json"
	"flag"
	"fmt"
	"os"
	"os/exec"
	"path/filepath"
	"regexp"
	"runtime"
	"runtime/pprof"
	"sort"
	"strconv"
	"strings"
	"time"

	"golang.org/x/tools/go/ssa"

	"verif/engine/smt"
	"verif/engine/sym"
)

const module = "github.com/named-data/ndnd"

var (
	verifDir = envOr("VERIF_DIR", "/verif")
	repoDir  = envOr("VERIF_REPO", "/repo")
)

func envOr(k, d string) string {
	if v := os.Getenv(k); v != "" {
		return v
	}
	return d
}

type TierCfg struct {
	Params      map[string]int64 `json:"params"`
	Steps       int64            `json:"steps"`
	MaxPaths    int              `json:"max_paths"`
	SolverMs    int              `json:"solver_ms"`
	BudgetS     int              `json:"budget_s"`
	Witnesses   int              `json:"witnesses"`
	Skip        bool             `json:"skip"`
	Bounds      string           `json:"bounds"`
	Workers     int              `json:"workers"`
	ReverseMaps bool             `json:"reverse_maps"`
	Solvers     []string         `json:"solvers"`
	// GenInclude: generated harnesses (names containing "_Parse_" / "_Model_") run only if they contain one of these substrings
	GenInclude []string `json:"gen_include"`
}

type HarnessCfg struct {
	Race         bool     `json:"race"` // build the native replay binary with -race (all harnesses of the package dir)
	Quick        *TierCfg `json:"quick"`
	Thorough     *TierCfg `json:"thorough"`
	LooseWitness bool     `json:"loose_witness"`
	NoReplay     bool     `json:"no_replay"`
	Doc          string   `json:"doc"`
}

type PropCfg struct {
	SharedFiles []string               `json:"shared_files"` // harness files of other properties (relative to harness/<id>/)
	RegenCheck  bool                   `json:"regen_check"`
	Generators  []string               `json:"generators"`
	Description string                 `json:"description"`
	Tiers       map[string]*TierCfg    `json:"tiers"`
	Harness     map[string]*HarnessCfg `json:"harness"`
	Assumptions []string               `json:"assumptions"`
	Stubs       []string               `json:"stubs"`
}

type Finding struct {
	Property    string `json:"property"`
	Harness     string `json:"harness"`
	Label       string `json:"label"`
	Site        string `json:"site"`
	Status      string `json:"status"` // open | fixed
	Commit      string `json:"commit,omitempty"`
	Description string `json:"description"`
}

type harnessFile struct {
	path    string // in /verif
	dir     string // repo-relative package dir
	pkgName string
	src     []byte
}

func main() {
	if len(os.Args) < 2 {
		usage()
	}
	switch os.Args[1] {
	case "run":
		if pf := os.Getenv("VERIF_CPUPROFILE"); pf != "" {
			f, _ := os.Create(pf)
			pprof.StartCPUProfile(f)
			rc := cmdRun(os.Args[2:])
			pprof.StopCPUProfile()
			f.Close()
			os.Exit(rc)
		}
		os.Exit(cmdRun(os.Args[2:]))
	case "replay":
		os.Exit(cmdReplay(os.Args[2:]))
	default:
		usage()
	}
}

func usage() {
	fmt.Fprintln(os.Stderr, "usage: vcheck run <Cxx> [--tier quick|thorough] [--only substr] [-v] | vcheck replay <file>")
	os.Exit(2)
}

var dirRe = regexp.MustCompile(`(?m)^//verif:dir\s+(\S+)`)
var pkgRe = regexp.MustCompile(`(?m)^package\s+(\w+)`)

func loadHarnessFiles(id string) ([]harnessFile, error) {
	files, _ := filepath.Glob(filepath.Join(verifDir, "harness", id, "*.go"))
	sort.Strings(files)
	var out []harnessFile
	for _, f := range files {
		src, err := os.ReadFile(f)
		if err != nil {
			return nil, err
		}
		m := dirRe.FindSubmatch(src)
		pm := pkgRe.FindSubmatch(src)
		if m == nil || pm == nil {
			return nil, fmt.Errorf("%s: missing //verif:dir or package clause", f)
		}
		out = append(out, harnessFile{path: f, dir: string(m[1]), pkgName: string(pm[1]), src: src})
	}
	// generated harnesses (config.json "generators")
	var cfg PropCfg
	if data, err := os.ReadFile(filepath.Join(verifDir, "harness", id, "config.json")); err == nil {
		json.Unmarshal(data, &cfg)
	}
	for _, sf := range cfg.SharedFiles {
		f := filepath.Join(verifDir, "harness", id, sf)
		src, err := os.ReadFile(f)
		if err != nil {
			return nil, err
		}
		m := dirRe.FindSubmatch(src)
		pm := pkgRe.FindSubmatch(src)
		if m == nil || pm == nil {
			return nil, fmt.Errorf("%s: missing //verif:dir or package clause", f)
		}
		out = append(out, harnessFile{path: filepath.Join(verifDir, "harness", id, "shared_"+filepath.Base(f)), dir: string(m[1]), pkgName: string(pm[1]), src: src})
	}
	for _, g := range cfg.Generators {
		gf, ok := generators[g]
		if !ok {
			return nil, fmt.Errorf("unknown harness generator %q", g)
		}
		hs, err := gf(id)
		if err != nil {
			return nil, err
		}
		out = append(out, hs...)
		if d := os.Getenv("VERIF_DUMPGEN"); d != "" { // debugging: write the generated harness sources to a directory
			os.MkdirAll(d, 0o755)
			for _, h := range hs {
				os.WriteFile(filepath.Join(d, strings.ReplaceAll(h.dir, "/", "_")+"_"+filepath.Base(h.path)), h.src, 0o644)
			}
		}
	}
	if len(out) == 0 {
		return nil, fmt.Errorf("no harness files for %s", id)
	}
	return out, nil
}

// overlayFor builds the overlay (virtual path -> content) for symbolic loading or native replay.
func overlayFor(hfs []harnessFile) (map[string][]byte, []string, error) {
	tmpl, err := os.ReadFile(filepath.Join(verifDir, "harness", "api.go.tmpl"))
	if err != nil {
		return nil, nil, err
	}
	ov := map[string][]byte{}
	dirs := map[string]string{}
	for _, h := range hfs {
		ov[filepath.Join(repoDir, h.dir, "zz_verif_"+filepath.Base(h.path))] = h.src
		dirs[h.dir] = h.pkgName
	}
	var dl []string
	for d, pn := range dirs {
		ov[filepath.Join(repoDir, d, "zz_verif_api.go")] = []byte(strings.Replace(string(tmpl), "package PKGNAME", "package "+pn, 1))
		dl = append(dl, d)
	}
	sort.Strings(dl)
	return ov, dl, nil
}

func cmdRun(args []string) int {
	fs := flag.NewFlagSet("run", flag.ExitOnError)
	tier := fs.String("tier", envOr("VERIF_TIER", "quick"), "quick|thorough")
	only := fs.String("only", "", "run only harnesses whose name contains this")
	verbose := fs.Bool("v", false, "verbose")
	workers := fs.Int("workers", 0, "worker goroutines")
	noReplay := fs.Bool("no-replay", false, "skip native replays (development)")
	pathOf := fs.String("path-of", "", "debugging: re-run only the path recorded in this replay file (no evidence is written)")
	var id string
	if len(args) > 0 && !strings.HasPrefix(args[0], "-") {
		id = args[0]
		args = args[1:]
	}
	fs.Parse(args)
	if id == "" && fs.NArg() > 0 {
		id = fs.Arg(0)
	}
	if id == "" {
		usage()
	}
	seed, _ := strconv.Atoi(envOr("VERIF_SEED", "0"))
	t0 := time.Now()
	r := &runner{id: id, tier: *tier, only: *only, verbose: *verbose, workers: *workers, seed: seed, noReplay: *noReplay}
	if *pathOf != "" {
		var rc replayCase
		data, err := os.ReadFile(*pathOf)
		if err != nil || json.Unmarshal(data, &rc) != nil || rc.Path == nil {
			fmt.Println("INCONCLUSIVE cannot read a path from", *pathOf)
			return 2
		}
		r.only, r.onlyPath, r.noReplay = rc.Harness, rc.Path, true
	}
	code := r.run()
	fmt.Printf("vcheck %s tier=%s exit=%d wall=%.1fs\n", id, *tier, code, time.Since(t0).Seconds())
	return code
}

type runner struct {
	id       string
	tier     string
	only     string
	verbose  bool
	workers  int
	seed     int
	noReplay bool
	onlyPath []uint64
	cfg      PropCfg
	hfs      []harnessFile
	tmp      string
	regen    []regenResult
	bins     map[string]string // dir -> test binary
}

type harnessReport struct {
	Name         string           `json:"name"`
	Paths        int              `json:"paths"`
	Completed    int              `json:"completed"`
	Infeasible   int              `json:"infeasible"`
	Decisions    int64            `json:"decisions"`
	Steps        int64            `json:"ssa_instructions"`
	Obligations  map[string]int   `json:"obligations_hit"`
	Proved       map[string]int   `json:"obligations_proved_unsat_or_trivial"`
	Queries      map[string]int   `json:"queries"`
	SolverS      float64          `json:"solver_time_s"`
	WallS        float64          `json:"wall_s"`
	Bounds       string           `json:"bounds"`
	Params       map[string]int64 `json:"params,omitempty"`
	Exhausted    bool             `json:"exhausted"`
	Inconclusive []string         `json:"inconclusive,omitempty"`
	Witnesses    int              `json:"witness_replays_matched"`
	WitnessBad   int              `json:"witness_replays_mismatched"`
	Dropped      int              `json:"goroutines_dropped"`
	Violations   []string         `json:"violations,omitempty"`
}

func (r *runner) tierCfg(h string) *TierCfg {
	base := TierCfg{Steps: 5_000_000, MaxPaths: 1000000, SolverMs: 10000, BudgetS: 150, Witnesses: 2}
	if r.tier == "thorough" {
		base.BudgetS = 1500
		base.SolverMs = 60000
		base.Steps = 50_000_000
		base.MaxPaths = 5_000_000
		base.Witnesses = 5
	}
	merge := func(t *TierCfg) {
		if t == nil {
			return
		}
		if t.Params != nil {
			if base.Params == nil {
				base.Params = map[string]int64{}
			}
			for k, v := range t.Params {
				base.Params[k] = v
			}
		}
		if t.Steps != 0 {
			base.Steps = t.Steps
		}
		if t.MaxPaths != 0 {
			base.MaxPaths = t.MaxPaths
		}
		if t.SolverMs != 0 {
			base.SolverMs = t.SolverMs
		}
		if t.BudgetS != 0 {
			base.BudgetS = t.BudgetS
		}
		if t.Witnesses != 0 {
			base.Witnesses = t.Witnesses
		}
		if t.Bounds != "" {
			base.Bounds = t.Bounds
		}
		if t.Workers != 0 {
			base.Workers = t.Workers
		}
		if t.Solvers != nil {
			base.Solvers = t.Solvers
		}
		if t.GenInclude != nil {
			base.GenInclude = t.GenInclude
		}
		base.Skip = base.Skip || t.Skip
		base.ReverseMaps = base.ReverseMaps || t.ReverseMaps
	}
	defer func() {
		// VERIF_BUDGET_SCALE (development: sweeps run side by side on a loaded machine) multiplies the wall-clock budgets
		if f, err := strconv.ParseFloat(os.Getenv("VERIF_BUDGET_SCALE"), 64); err == nil && f > 0 {
			base.BudgetS = int(float64(base.BudgetS) * f)
		}
	}()
	merge(r.cfg.Tiers[r.tier])
	if hc := r.cfg.Harness[h]; hc != nil {
		if r.tier == "quick" {
			merge(hc.Quick)
		} else {
			merge(hc.Quick)
			base.Skip = false
			merge(hc.Thorough)
		}
	}
	return &base
}

func (r *runner) run() int {
	t0 := time.Now()
	var err error
	r.hfs, err = loadHarnessFiles(r.id)
	if err != nil {
		fmt.Println("INCONCLUSIVE", err)
		return 2
	}
	if data, err := os.ReadFile(filepath.Join(verifDir, "harness", r.id, "config.json")); err == nil {
		if err := json.Unmarshal(data, &r.cfg); err != nil {
			fmt.Println("INCONCLUSIVE bad config.json:", err)
			return 2
		}
	}
	if r.cfg.Tiers == nil {
		r.cfg.Tiers = map[string]*TierCfg{}
	}
	if r.cfg.Harness == nil {
		r.cfg.Harness = map[string]*HarnessCfg{}
	}
	ov, dirs, err := overlayFor(r.hfs)
	if err != nil {
		fmt.Println("INCONCLUSIVE", err)
		return 2
	}
	tl := time.Now()
	prog, _, err := sym.Load(repoDir, module, dirs, ov)
	if err != nil {
		fmt.Println("INCONCLUSIVE cannot load /repo with harness overlay:", err)
		r.writeEvidence(nil, nil, nil, 0, time.Since(t0), []string{"load error: " + err.Error()})
		return 2
	}
	loadS := time.Since(tl).Seconds()
	entries := prog.Entries("Verif" + r.id + "_")
	if len(entries) == 0 {
		fmt.Println("INCONCLUSIVE no harness entry functions found")
		return 2
	}
	r.tmp, err = os.MkdirTemp("", "vcheck-"+r.id+"-")
	if err != nil {
		fmt.Println("INCONCLUSIVE", err)
		return 2
	}
	defer os.RemoveAll(r.tmp)
	r.bins = map[string]string{}

	findings := loadFindings()
	var reports []*harnessReport
	var allViol []*confirmed
	var inconc []string
	funcs := map[string]int64{}
	var samples []string
	nw := r.workers
	if nw == 0 {
		nw = runtime.NumCPU()
		if nw > 16 {
			nw = 16
		}
	}
	for _, fn := range entries {
		name := fn.Name()
		if r.only != "" && !strings.Contains(name, r.only) {
			continue
		}
		tc := r.tierCfg(name)
		if tc.Skip {
			continue
		}
		if len(tc.GenInclude) > 0 && (strings.Contains(name, "_Parse_") || strings.Contains(name, "_Model_") || strings.Contains(name, "_Long_")) {
			inc := false
			for _, g := range tc.GenInclude {
				// "<substring>" or "<suffix>$" (exact end of the harness name)
				if strings.HasSuffix(g, "$") {
					if strings.HasSuffix(name, strings.TrimSuffix(g, "$")) {
						inc = true
					}
				} else if strings.Contains(name, g) {
					inc = true
				}
			}
			if !inc {
				continue
			}
		}
		w := nw
		if tc.Workers != 0 {
			w = tc.Workers
		}
		var kinds []smt.Kind
		for _, s := range tc.Solvers {
			kinds = append(kinds, smt.Kind(s))
		}
		cfg := &sym.Config{Harness: name, Entry: fn, StepBudget: tc.Steps, MaxPaths: tc.MaxPaths, Workers: w, SolverMs: tc.SolverMs,
			Params: tc.Params, Deadline: time.Now().Add(time.Duration(tc.BudgetS) * time.Second), Witnesses: tc.Witnesses, Verbose: r.verbose,
			ReverseMaps: tc.ReverseMaps, ReverseMapsPerRange: r.tier == "thorough", Solvers: kinds}
		if r.onlyPath != nil {
			cfg.OnlyPath = r.onlyPath
			cfg.Workers = 1
		}
		res := sym.Explore(prog, cfg)
		rep := &harnessReport{Name: name, Paths: res.Paths, Completed: res.Completed, Infeasible: res.Infeasible, Decisions: res.Decisions, Steps: res.Steps,
			Obligations: res.Hits, Proved: res.Proved, Queries: map[string]int{"sat": res.Solver.Sat, "unsat": res.Solver.Unsat, "unknown": res.Solver.Unknown, "errors": res.Solver.Errors},
			SolverS: res.Solver.Time.Seconds(), WallS: res.Wall.Seconds(), Bounds: tc.Bounds, Params: tc.Params, Exhausted: res.Exhausted, Inconclusive: res.Inconclusive, Dropped: res.Dropped}
		for k, v := range res.Funcs {
			funcs[k] += v
		}
		samples = append(samples, res.Samples...)
		if res.Completed == 0 && len(res.Violations) == 0 {
			rep.Inconclusive = append(rep.Inconclusive, "vacuous: no path reached the end of the harness")
		}
		hc := r.cfg.Harness[name]
		// native replays: witnesses and violations
		if !r.noReplay && (hc == nil || !hc.NoReplay) {
			for i, w := range res.Witnesses {
				ok, detail := r.replayWitness(fn, name, tc, i, w)
				if ok {
					rep.Witnesses++
				} else {
					rep.WitnessBad++
					if hc == nil || !hc.LooseWitness {
						rep.Inconclusive = append(rep.Inconclusive, "witness replay mismatch: "+detail)
					} else if r.verbose {
						fmt.Println("  (loose) witness mismatch:", detail)
					}
				}
			}
		}
		for _, v := range res.Violations {
			c := r.confirm(fn, name, tc, v, hc)
			rep.Violations = append(rep.Violations, fmt.Sprintf("%s [%s]", v.Key(), c.status))
			allViol = append(allViol, c)
		}
		for _, s := range rep.Inconclusive {
			inconc = append(inconc, name+": "+s)
		}
		reports = append(reports, rep)
		fmt.Printf("  %-40s paths=%d completed=%d viol=%d inconcl=%d queries=%d/%d/%d wall=%.1fs\n", name, res.Paths, res.Completed, len(res.Violations), len(rep.Inconclusive),
			res.Solver.Sat, res.Solver.Unsat, res.Solver.Unknown, res.Wall.Seconds())
		if os.Getenv("VERIF_STOP_AT_FIRST_VIOLATION") != "" {
			// seed sweeps only: the remaining harnesses cannot change the verdict "caught"
			stop := false
			for _, c := range allViol {
				if c.status == "confirmed" && matchFinding(findings, r.id, c.v) == nil {
					stop = true
				}
			}
			if stop {
				fmt.Println("  (VERIF_STOP_AT_FIRST_VIOLATION: remaining harnesses not run)")
				break
			}
		}
	}
	// classify
	exit := 0
	nviol := 0
	var regen []regenResult
	if r.cfg.RegenCheck && r.only == "" {
		var err error
		regen, err = r.regenCheck()
		if err != nil {
			inconc = append(inconc, "regeneration check: "+err.Error())
		}
		for _, g := range regen {
			if g.Err != "" {
				inconc = append(inconc, "regeneration check "+g.Dir+": "+g.Err)
			} else if !g.Same {
				nviol++
				exit = 1
				fmt.Printf("VIOLATION property=%s replay=%s\n  %s/generator/checked-in-equals-regenerated: %s/zz_generated.go differs from the output of the checked-in generator\n", r.id, g.Replay, r.id, g.Dir)
			}
		}
		r.regen = regen
	}
	knownHit := map[string]bool{}
	for _, c := range allViol {
		switch c.status {
		case "confirmed":
			if f := matchFinding(findings, r.id, c.v); f != nil {
				key := f.Label + "@" + f.Site
				if !knownHit[key] {
					knownHit[key] = true
					fmt.Printf("KNOWN-FINDING: property=%s %s at %s: %s\n", r.id, f.Label, f.Site, f.Description)
				}
				continue
			}
			nviol++
			fmt.Printf("VIOLATION property=%s replay=%s\n", r.id, c.path)
			fmt.Printf("  %s at %s: %s\n", c.v.Label, c.v.Site, c.v.Msg)
			exit = 1
		case "unconfirmed":
			inconc = append(inconc, fmt.Sprintf("%s: UNCONFIRMED counterexample for %s (native replay: %s) replay=%s", c.v.Harness, c.v.Key(), c.detail, c.path))
		}
	}
	if exit == 0 && len(inconc) > 0 {
		exit = 2
	}
	for _, s := range inconc {
		fmt.Println("INCONCLUSIVE", s)
	}
	if r.onlyPath == nil {
		r.writeEvidence(reports, funcs, samples, nviol, time.Since(t0), inconc)
	}
	_ = loadS
	return exit
}

type confirmed struct {
	v      *sym.Violation
	status string // confirmed | unconfirmed
	path   string
	detail string
}

func loadFindings() []Finding {
	var fs []Finding
	data, err := os.ReadFile(filepath.Join(verifDir, "known_findings.json"))
	if err != nil {
		return nil
	}
	json.Unmarshal(data, &fs)
	return fs
}

func matchFinding(fs []Finding, id string, v *sym.Violation) *Finding {
	for i := range fs {
		f := &fs[i]
		if f.Status != "open" || f.Property != id {
			continue
		}
		if f.Label == v.Label && (f.Site == v.Site) {
			return f
		}
	}
	return nil
}

type replayCase struct {
	Harness string           `json:"harness"`
	Nondet  []sym.NondetRec  `json:"nondet"`
	Params  map[string]int64 `json:"params"`
	Label   string           `json:"label,omitempty"`
	Site    string           `json:"site,omitempty"`
	Msg     string           `json:"msg,omitempty"`
	Dir     string           `json:"dir"`
	Prop    string           `json:"property"`
	PC      []string         `json:"path_condition_prefix,omitempty"`
	Path    []uint64         `json:"path,omitempty"`
}

func (r *runner) dirOf(fn *ssa.Function) string {
	return strings.TrimPrefix(strings.TrimPrefix(fn.Pkg.Pkg.Path(), module), "/")
}

func (r *runner) confirm(fn *ssa.Function, name string, tc *TierCfg, v *sym.Violation, hc *HarnessCfg) *confirmed {
	rc := replayCase{Harness: name, Nondet: v.Nondet, Params: tc.Params, Label: v.Label, Site: v.Site, Msg: v.Msg, Dir: r.dirOf(fn), Prop: r.id, PC: v.PC, Path: v.Path}
	data, _ := json.MarshalIndent(rc, "", " ")
	h := sha1.Sum([]byte(v.Key()))
	dir := filepath.Join(verifDir, "replays", r.id)
	os.MkdirAll(dir, 0o755)
	path := filepath.Join(dir, fmt.Sprintf("%s-%x.json", name, h[:5]))
	os.WriteFile(path, data, 0o644)
	c := &confirmed{v: v, path: path}
	if r.noReplay || (hc != nil && hc.NoReplay) {
		c.status = "confirmed"
		c.detail = "native replay disabled"
		return c
	}
	out, err := r.runNative(rc.Dir, path)
	if err != nil {
		c.status = "unconfirmed"
		c.detail = err.Error()
		return c
	}
	ok, detail := outcomeMatches(out, v.Label)
	// A native run that passes may have been lucky: Go randomises map iteration order (the symbolic run explores
	// insertion order and its reverse), goroutines are scheduled differently.  Replay a few more times; the
	// counterexample counts as reproduced if any run fails with the expected label.
	for try := 0; !ok && out.outcome == "ok" && try < 6; try++ {
		if out2, err2 := r.runNative(rc.Dir, path); err2 == nil {
			if ok2, d2 := outcomeMatches(out2, v.Label); ok2 {
				ok, detail = true, d2+fmt.Sprintf(" (on native attempt %d)", try+2)
			}
		}
	}
	c.detail = detail
	if ok {
		c.status = "confirmed"
	} else {
		c.status = "unconfirmed"
	}
	return c
}

type nativeOut struct {
	outcome string // ok | fail | crash | timeout | error
	label   string
	site    string
	msg     string
	obs     []sym.Obs
	raw     string
}

func outcomeMatches(o *nativeOut, label string) (bool, string) {
	switch o.outcome {
	case "fail":
		if o.label == label {
			return true, "reproduced: " + o.msg
		}
		// a no-panic obligation and an assertion may both describe the same event; be strict
		return false, fmt.Sprintf("native run failed with a different label %s (%s)", o.label, o.msg)
	case "crash":
		if strings.Contains(label, "no-panic") || strings.Contains(label, "alloc") || strings.Contains(label, "no-crash") {
			return true, "reproduced as process crash: " + o.msg
		}
		return false, "native run crashed: " + o.msg
	case "timeout":
		if strings.Contains(label, "terminates") || strings.Contains(label, "progress") {
			return true, "reproduced as non-termination (watchdog)"
		}
		return false, "native run timed out"
	case "ok":
		return false, "native run passed"
	}
	return false, "native run error: " + o.msg
}

// buildNative compiles the replay test binary for a package directory.
func (r *runner) buildNative(dir string) (string, error) {
	if b, ok := r.bins[dir]; ok {
		if b == "" {
			return "", fmt.Errorf("native build failed earlier")
		}
		return b, nil
	}
	ov, _, err := overlayFor(r.hfs)
	if err != nil {
		return "", err
	}
	// registry test file per package dir
	var pkgName string
	var names []string
	fre := regexp.MustCompile(`(?m)^func (Verif` + r.id + `_\w+)\(\)`)
	for _, h := range r.hfs {
		if h.dir != dir {
			continue
		}
		pkgName = h.pkgName
		for _, m := range fre.FindAllSubmatch(h.src, -1) {
			names = append(names, string(m[1]))
		}
	}
	var sb strings.Builder
	fmt.Fprintf(&sb, "package %s\n\nimport \"testing\"\n\nfunc TestVerifReplay(t *testing.T) {\n\tverifReplayMain(map[string]func(){\n", pkgName)
	for _, n := range names {
		fmt.Fprintf(&sb, "\t\t%q: %s,\n", n, n)
	}
	sb.WriteString("\t})\n}\n")
	ov[filepath.Join(repoDir, dir, "zz_verif_replay_test.go")] = []byte(sb.String())
	repl := map[string]string{}
	i := 0
	for vp, content := range ov {
		// harness files of other package directories are part of the build too (helpers that a harness
		// imports from a dependency, e.g. C17's in-memory face in package face)
		real := filepath.Join(r.tmp, fmt.Sprintf("ov%s_%d_%s", strings.ReplaceAll(dir, "/", "_"), i, filepath.Base(vp)))
		i++
		if err := os.WriteFile(real, content, 0o644); err != nil {
			return "", err
		}
		repl[vp] = real
	}
	ovj, _ := json.Marshal(map[string]interface{}{"Replace": repl})
	ovPath := filepath.Join(r.tmp, "overlay_"+strings.ReplaceAll(dir, "/", "_")+".json")
	os.WriteFile(ovPath, ovj, 0o644)
	bin := filepath.Join(r.tmp, "replay_"+strings.ReplaceAll(dir, "/", "_")+".test")
	argsb := []string{"test", "-c", "-vet=off", "-overlay", ovPath, "-o", bin}
	for _, hc := range r.cfg.Harness {
		if hc != nil && hc.Race {
			argsb = append(argsb, "-race")
			break
		}
	}
	argsb = append(argsb, "./"+dir)
	cmd := exec.Command("go", argsb...)
	cmd.Dir = repoDir
	cmd.Env = append(os.Environ(), "GOFLAGS=-mod=mod", "GOPROXY=off", "GOSUMDB=off", "GOTOOLCHAIN=local")
	out, err := cmd.CombinedOutput()
	if err != nil {
		r.bins[dir] = ""
		return "", fmt.Errorf("native build of %s failed: %v\n%s", dir, err, tail(string(out), 2000))
	}
	r.bins[dir] = bin
	return bin, nil
}

func tail(s string, n int) string {
	if len(s) > n {
		return s[len(s)-n:]
	}
	return s
}

func (r *runner) runNative(dir, casePath string) (*nativeOut, error) {
	bin, err := r.buildNative(dir)
	if err != nil {
		return nil, err
	}
	return runNativeBin(bin, casePath, filepath.Join(repoDir, dir))
}

func runNativeBin(bin, casePath, cwd string) (*nativeOut, error) {
	cmd := exec.Command("bash", "-c", "ulimit -v 12000000; exec timeout -k 2 30 \"$0\" -test.run '^TestVerifReplay$' -test.v -test.timeout 25s", bin)
	cmd.Dir = cwd
	cmd.Env = append(os.Environ(), "VERIF_REPLAY="+casePath, "GOMAXPROCS=2", "GOMEMLIMIT=8GiB")
	outb, err := cmd.CombinedOutput()
	out := string(outb)
	o := &nativeOut{raw: tail(out, 3000)}
	raceLabel := ""
	for _, l := range strings.Split(out, "\n") {
		if strings.HasPrefix(l, "VERIF-RACE-LABEL ") {
			raceLabel = strings.TrimSpace(strings.TrimPrefix(l, "VERIF-RACE-LABEL "))
		}
		if strings.HasPrefix(l, "VERIF-OBS ") {
			p := strings.SplitN(l, " ", 3)
			if len(p) == 3 {
				o.obs = append(o.obs, sym.Obs{Name: p[1], Val: p[2]})
			}
		}
		if strings.HasPrefix(l, "VERIF-OUTCOME ") {
			p := strings.SplitN(l, " ", 4)
			o.outcome = p[1]
			if o.outcome == "fail" && len(p) >= 3 {
				o.label = p[2]
				if len(p) == 4 {
					o.msg = p[3]
					if i := strings.Index(p[3], "site="); i >= 0 {
						rest := p[3][i+5:]
						if j := strings.Index(rest, " "); j >= 0 {
							o.site = rest[:j]
						}
					}
				}
			} else if len(p) >= 3 {
				o.msg = strings.Join(p[2:], " ")
			}
		}
	}
	if strings.Contains(out, "WARNING: DATA RACE") && raceLabel != "" {
		o.outcome, o.label, o.msg = "fail", raceLabel, "race detector: "+firstLineWith(out, "Write at", "Read at", "Previous write", "Previous read")
	}
	if o.outcome == "" {
		if ee, ok := err.(*exec.ExitError); ok {
			code := ee.ExitCode()
			if code == 124 || code == 137 || strings.Contains(out, "test timed out") {
				o.outcome = "timeout"
			} else {
				o.outcome = "crash"
				o.msg = firstLineWith(out, "fatal error", "panic:", "runtime:", "signal")
			}
		} else if err != nil {
			o.outcome = "error"
			o.msg = err.Error()
		} else {
			o.outcome = "error"
			o.msg = "no outcome line"
		}
	}
	return o, nil
}

func firstLineWith(s string, subs ...string) string {
	for _, l := range strings.Split(s, "\n") {
		for _, sub := range subs {
			if strings.Contains(l, sub) {
				return strings.TrimSpace(l)
			}
		}
	}
	return tail(s, 200)
}

func (r *runner) replayWitness(fn *ssa.Function, name string, tc *TierCfg, i int, w sym.Witness) (bool, string) {
	rc := replayCase{Harness: name, Nondet: w.Nondet, Params: tc.Params, Dir: r.dirOf(fn), Prop: r.id}
	data, _ := json.Marshal(rc)
	path := filepath.Join(r.tmp, fmt.Sprintf("witness-%s-%d.json", name, i))
	os.WriteFile(path, data, 0o644)
	out, err := r.runNative(rc.Dir, path)
	if err != nil {
		return false, err.Error()
	}
	if out.outcome != "ok" {
		return false, fmt.Sprintf("native outcome %s %s %s; %s", out.outcome, out.label, out.msg, tail(out.raw, 300))
	}
	if len(out.obs) != len(w.Obs) {
		return false, fmt.Sprintf("observation count differs: native %d symbolic %d", len(out.obs), len(w.Obs))
	}
	for j := range w.Obs {
		if out.obs[j].Name != w.Obs[j].Name || out.obs[j].Val != w.Obs[j].Val {
			return false, fmt.Sprintf("observation %s: native %s symbolic %s", w.Obs[j].Name, out.obs[j].Val, w.Obs[j].Val)
		}
	}
	return true, ""
}

func cmdReplay(args []string) int {
	if len(args) < 1 {
		usage()
	}
	data, err := os.ReadFile(args[0])
	if err != nil {
		fmt.Println("cannot read", args[0], err)
		return 2
	}
	var kind map[string]string
	if json.Unmarshal(data, &kind) == nil && kind["kind"] == "regen" {
		abs, _ := filepath.Abs(args[0])
		return replayRegen(abs, kind)
	}
	var rc replayCase
	if err := json.Unmarshal(data, &rc); err != nil {
		fmt.Println("bad replay file", err)
		return 2
	}
	r := &runner{id: rc.Prop, bins: map[string]string{}}
	if data, err := os.ReadFile(filepath.Join(verifDir, "harness", rc.Prop, "config.json")); err == nil {
		json.Unmarshal(data, &r.cfg)
	}
	r.hfs, err = loadHarnessFiles(rc.Prop)
	if err != nil {
		fmt.Println(err)
		return 2
	}
	r.tmp, _ = os.MkdirTemp("", "vcheck-replay-")
	defer os.RemoveAll(r.tmp)
	abs, _ := filepath.Abs(args[0])
	out, err := r.runNative(rc.Dir, abs)
	if err != nil {
		fmt.Println("replay error:", err)
		return 2
	}
	fmt.Printf("native outcome: %s label=%s site=%s %s\n", out.outcome, out.label, out.site, out.msg)
	if rc.Label != "" {
		ok, detail := outcomeMatches(out, rc.Label)
		fmt.Printf("expected violation %s at %s: reproduced=%v (%s)\n", rc.Label, rc.Site, ok, detail)
		if ok {
			fmt.Printf("VIOLATION property=%s replay=%s\n", rc.Prop, abs)
			return 1
		}
		return 0
	}
	return 0
}

// ---------------------------------------------------------------- evidence

func (r *runner) writeEvidence(reports []*harnessReport, funcs map[string]int64, samples []string, nviol int, wall time.Duration, inconc []string) {
	states, trans, traces := 0, int64(0), 0
	obl, proved := 0, 0
	q := map[string]int{}
	solverS := 0.0
	var steps int64
	exhaustive := true
	for _, rp := range reports {
		states += rp.Paths
		trans += rp.Decisions
		traces += rp.Witnesses
		steps += rp.Steps
		for _, v := range rp.Obligations {
			obl += v
		}
		for _, v := range rp.Proved {
			proved += v
		}
		for k, v := range rp.Queries {
			q[k] += v
		}
		solverS += rp.SolverS
		if !rp.Exhausted {
			exhaustive = false
		}
		for _, v := range rp.Violations {
			if strings.Contains(v, "[confirmed]") {
				traces++
			}
		}
	}
	type fc struct {
		Name  string `json:"fn"`
		Calls int64  `json:"calls"`
	}
	var fl []fc
	for k, v := range funcs {
		if strings.Contains(k, "Verif"+r.id) || strings.Contains(k, ".verif") {
			continue
		}
		fl = append(fl, fc{k, v})
	}
	sort.Slice(fl, func(i, j int) bool {
		return fl[i].Calls > fl[j].Calls || fl[i].Calls == fl[j].Calls && fl[i].Name < fl[j].Name
	})
	nfuncs := len(fl)
	if len(fl) > 60 {
		fl = fl[:60]
	}
	if len(samples) > 12 {
		samples = samples[:12]
	}
	if len(samples) == 0 {
		samples = []string{"(no completed path)"}
	}
	if trans == 0 {
		trans = int64(states)
	}
	cov := map[string]interface{}{
		"states":                        states,
		"transitions":                   trans,
		"traces_validated_against_impl": traces,
		"samples":                       samples,
		"exhaustive":                    exhaustive && len(inconc) == 0,
		"explanation":                   "states = feasible symbolic paths of the harness entry functions executed over go/ssa of /repo's current tree; transitions = solver-decided fork decisions along them; each obligation (harness assertion / no-panic / allocation bound) is a query pc AND NOT(assertion) answered unsat by the SMT solver or folded to true by the term simplifier; traces_validated_against_impl = native go-test replays of solver models (witnesses and counterexamples) whose outcome and observations matched the symbolic run",
		"obligations":                   obl,
		"discharged":                    proved,
		"queries":                       q,
		"solver_time_s":                 solverS,
		"solvers":                       []string{"staged portfolio: z3 5.1.0 (z3-new, 1.5 s) -> cvc5 1.0.3 -> z3 4.8.12 -> cvc5 --solve-bv-as-int=sum; the next stage is asked only when the previous one answers unknown/timeout; every sat model is re-validated by evaluating the query under it"},
		"ssa_instructions_executed":     steps,
		"functions_encoded_count":       nfuncs,
		"functions_encoded_top":         fl,
		"harnesses":                     reports,
		"inconclusive":                  inconc,
		"stubs":                         r.cfg.Stubs,
	}
	if r.regen != nil {
		cov["generator_regeneration_byte_comparison_not_a_solver_query"] = r.regen
	}
	ev := map[string]interface{}{
		"property_id": r.id,
		"tier":        r.tier,
		"seed":        r.seed,
		"level":       "model_checking",
		"coverage":    cov,
		"assumptions": append([]string{"bounded symbolic execution: every claim holds only within the per-harness bounds listed under coverage.harnesses[].bounds"}, r.cfg.Assumptions...),
		"wall_s":      wall.Seconds(),
		"violations":  nviol,
	}
	if states == 0 {
		cov["states"] = 1
		cov["transitions"] = 1
	}
	data, _ := json.MarshalIndent(ev, "", " ")
	os.MkdirAll(filepath.Join(verifDir, "evidence"), 0o755)
	os.WriteFile(filepath.Join(verifDir, "evidence", r.id+".json"), data, 0o644)
}
