package term

import (
	"fmt"
	"os"
)

// Linear reasoning over exact (non-wrapping) sums, used by the comparison
// constructors to decide conditions such as (x+10) < (x+y+18) without a
// solver call, and to normalise comparisons between sums that share terms,
// constants or a common factor (clock arithmetic: t0 + d1*10^6 < t0 + d2*10^6
// becomes d1 < d2).  A sum is "exact" when every Add/Sub/Mul node on its spine
// carries an interval that was derived without wrap-around.  All coefficient
// arithmetic is overflow-checked; any doubt makes the analysis give up.

type linTerm struct {
	t *T
	c int64
}

type lin struct {
	ts     []linTerm
	k      int64
	ok     bool
	visits int
}

const linLimit = uint64(1) << 62

func mulOK(a, b int64) (int64, bool) {
	if a == 0 || b == 0 {
		return 0, true
	}
	r := a * b
	if r/b != a || (a == -1 && b == -1<<63) || (b == -1 && a == -1<<63) {
		return 0, false
	}
	return r, true
}

func addOK(a, b int64) (int64, bool) {
	r := a + b
	if (a > 0 && b > 0 && r < 0) || (a < 0 && b < 0 && r >= 0) {
		return 0, false
	}
	return r, true
}

func (l *lin) add(t *T, c int64) {
	l.visits++
	for i := range l.ts {
		if l.ts[i].t == t || (l.ts[i].t.H == t.H && Equal(l.ts[i].t, t)) {
			s, ok := addOK(l.ts[i].c, c)
			if !ok {
				l.ok = false
				return
			}
			l.ts[i].c = s
			return
		}
	}
	l.ts = append(l.ts, linTerm{t, c})
}

// walk adds c*t to the sum.  top: t may be a wrapping subtraction of two exact sums below 2^62,
// whose two's-complement value read as a signed number is the integer difference.
func (l *lin) walk(t *T, c int64, depth int, top bool) {
	if !l.ok {
		return
	}
	if depth > 24 || c > 1<<40 || c < -(1<<40) {
		l.ok = false
		return
	}
	switch t.Op {
	case OConst:
		if t.C >= linLimit {
			l.ok = false
			return
		}
		p, ok := mulOK(c, int64(t.C))
		if !ok {
			l.ok = false
			return
		}
		s, ok := addOK(l.k, p)
		if !ok {
			l.ok = false
			return
		}
		l.k = s
		l.visits++
		return
	case OAdd:
		if t.exact {
			l.walk(t.A[0], c, depth+1, false)
			l.walk(t.A[1], c, depth+1, false)
			return
		}
	case OSub:
		if t.exact {
			l.walk(t.A[0], c, depth+1, false)
			l.walk(t.A[1], -c, depth+1, false)
			return
		}
		if top {
			_, h0 := t.A[0].Range()
			_, h1 := t.A[1].Range()
			lim := linLimit
			if t.W < 64 {
				lim = uint64(1) << (t.W - 1)
			}
			if h0 < lim && h1 < lim {
				l.walk(t.A[0], c, depth+1, false)
				l.walk(t.A[1], -c, depth+1, false)
				return
			}
		}
	case OMul:
		if t.exact && t.A[1].IsConst() && t.A[1].C < 1<<32 {
			p, ok := mulOK(c, int64(t.A[1].C))
			if !ok {
				l.ok = false
				return
			}
			l.walk(t.A[0], p, depth+1, false)
			return
		}
	case OShl:
		if t.exact && t.A[1].IsConst() && t.A[1].C < 16 {
			l.walk(t.A[0], c<<t.A[1].C, depth+1, false)
			return
		}
	case OZExt:
		l.walk(t.A[0], c, depth+1, false)
		return
	}
	if top && t.Op == OSub {
		l.ok = false
		return
	}
	_, hi := t.Range()
	if hi >= linLimit {
		l.ok = false
		return
	}
	l.add(t, c)
}

func (l *lin) bounds() (lo, hi int64, ok bool) {
	lo, hi = l.k, l.k
	for _, x := range l.ts {
		if x.c == 0 {
			continue
		}
		tl, th := x.t.Range()
		a, ok1 := mulOK(x.c, int64(tl))
		b, ok2 := mulOK(x.c, int64(th))
		if !ok1 || !ok2 {
			return 0, 0, false
		}
		if x.c < 0 {
			a, b = b, a
		}
		var o1, o2 bool
		lo, o1 = addOK(lo, a)
		hi, o2 = addOK(hi, b)
		if !o1 || !o2 {
			return 0, 0, false
		}
	}
	return lo, hi, true
}

// diff returns the linear form of (b - a) over the integers.  signed: a and b are read as signed
// numbers (each an exact sum, or a wrapping difference of two exact sums).
func diff(a, b *T, signed bool) (*lin, bool) {
	l := &lin{ok: true}
	l.walk(b, 1, 0, signed)
	l.walk(a, -1, 0, signed)
	if !l.ok {
		return nil, false
	}
	return l, true
}

// diffBounds returns bounds on (b - a) over the integers, if both are exact sums.
func diffBounds(a, b *T) (lo, hi int64, ok bool) {
	l, ok := diff(a, b, false)
	if !ok {
		return 0, 0, false
	}
	return l.bounds()
}

func gcd64(a, b int64) int64 {
	if a < 0 {
		a = -a
	}
	if b < 0 {
		b = -b
	}
	for b != 0 {
		a, b = b, a%b
	}
	return a
}

// split rebuilds 0 < l as lhs < rhs between two non-negative exact sums of width w, dividing by the
// common factor.  improved reports whether the result is simpler than the comparison it came from.
func (l *lin) split(w uint8) (lhs, rhs *T, improved, ok bool) {
	var g int64
	n := 0
	for _, x := range l.ts {
		if x.c != 0 {
			g = gcd64(g, x.c)
			n++
		}
	}
	if n == 0 {
		return nil, nil, false, false
	}
	k := l.k
	if k != 0 {
		n++
		if k%g != 0 {
			// 0 < g*S + k  <=>  0 < S + ceil(k/g) ... keep it simple: no division
			g = 1
		}
	}
	if g == 0 {
		g = 1
	}
	lhs, rhs = Const(w, 0), Const(w, 0)
	for _, x := range l.ts {
		if x.c == 0 {
			continue
		}
		t := x.t
		if t.W > w {
			return nil, nil, false, false
		}
		if t.W < w {
			if t.W == 0 {
				return nil, nil, false, false
			}
			t = ZExt(t, w)
		}
		c := x.c / g
		neg := c < 0
		if neg {
			c = -c
		}
		if c != 1 {
			t = Mul(t, Const(w, uint64(c)))
		}
		if neg {
			lhs = Add(lhs, t)
		} else {
			rhs = Add(rhs, t)
		}
	}
	k /= g
	if k < 0 {
		lhs = Add(lhs, Const(w, uint64(-k)))
	} else if k > 0 {
		rhs = Add(rhs, Const(w, uint64(k)))
	}
	_, lh := lhs.Range()
	_, rh := rhs.Range()
	if lh >= linLimit || rh >= linLimit {
		return nil, nil, false, false
	}
	return lhs, rhs, n < l.visits || g > 1, true
}

// linUlt tries to decide a < b (unsigned). Both must be exact sums.
func linUlt(a, b *T) (res bool, decided bool) {
	if a.W != b.W || a.W == 0 {
		return false, false
	}
	lo, hi, ok := diffBounds(a, b)
	if !ok {
		return false, false
	}
	if lo >= 1 {
		return true, true
	}
	if hi <= 0 {
		return false, true
	}
	return false, false
}

// linCmp decides or normalises a < b.  It returns nil when it has nothing to offer.
var noLin = os.Getenv("VERIF_NOLIN") != ""

func linCmp(a, b *T, signed bool) *T {
	if a.W != b.W || a.W == 0 || noLin {
		return nil
	}
	l, ok := diff(a, b, signed)
	if !ok {
		return nil
	}
	lo, hi, ok := l.bounds()
	if !ok {
		return nil
	}
	if !signed && (lo >= 1 || hi <= 0) {
		res := Bool(lo >= 1)
		if linDebug {
			debugCheckRewrite("decide-unsigned", a, b, res, mk(OUlt, 0, a, b))
		}
		return res
	}
	if signed {
		// both sides must be small enough for the signed reading to be the integer value
		for _, side := range []*T{a, b} {
			s := &lin{ok: true}
			s.walk(side, 1, 0, true)
			if !s.ok {
				return nil
			}
			slo, shi, ok := s.bounds()
			lim := int64(1) << 62
			if a.W < 64 {
				lim = int64(1) << (a.W - 1)
			}
			if !ok || slo <= -lim || shi >= lim {
				return nil
			}
		}
	}
	if lo >= 1 || hi <= 0 {
		res := Bool(lo >= 1)
		if linDebug {
			op := OUlt
			if signed {
				op = OSlt
			}
			debugCheckRewrite("decide", a, b, res, mk(op, 0, a, b))
		}
		return res
	}
	lhs, rhs, improved, ok := l.split(a.W)
	if !ok || (!improved && !signed) {
		return nil
	}
	res := ultRaw(lhs, rhs)
	if linDebug {
		op := OUlt
		if signed {
			op = OSlt
		}
		debugCheckRewrite("cmp", a, b, res, mk(op, 0, a, b))
	}
	return res
}

// linEq tries to decide a == b.
func linEq(a, b *T) (res bool, decided bool) {
	if a.W != b.W || a.W == 0 {
		return false, false
	}
	lo, hi, ok := diffBounds(a, b)
	if !ok {
		return false, false
	}
	if lo == 0 && hi == 0 {
		return true, true
	}
	if lo >= 1 || hi <= -1 {
		return false, true
	}
	return false, false
}

// linSub simplifies a - b when both are exact sums, something cancels, and the difference is a
// non-negative exact sum again (so no wrap-around is hidden).  Returns nil otherwise.
var noLinSub = os.Getenv("VERIF_NOLINSUB") != ""

func linSub(a, b *T) *T {
	if a.W != b.W || a.W == 0 || noLin || noLinSub {
		return nil
	}
	l, ok := diff(b, a, false) // a - b
	if !ok {
		return nil
	}
	n := 0
	for _, x := range l.ts {
		if x.c < 0 {
			return nil
		}
		if x.c > 0 {
			n++
		}
	}
	if l.k < 0 {
		return nil
	}
	if l.k != 0 {
		n++
	}
	if n >= l.visits {
		return nil // nothing cancelled
	}
	r := Const(a.W, 0)
	for _, x := range l.ts {
		if x.c == 0 {
			continue
		}
		t := x.t
		if t.W > a.W || t.W == 0 {
			return nil
		}
		if t.W < a.W {
			t = ZExt(t, a.W)
		}
		if x.c != 1 {
			t = Mul(t, Const(a.W, uint64(x.c)))
		}
		r = Add(r, t)
	}
	if l.k > 0 {
		r = Add(r, Const(a.W, uint64(l.k)))
	}
	if _, hi := r.Range(); hi >= linLimit {
		return nil
	}
	return r
}

var linDebug = os.Getenv("VERIF_LINDEBUG") != ""

// debugCheckRewrite samples assignments and reports a rewrite that changes the value of a comparison although
// every ranged node keeps its promise (development aid, VERIF_LINDEBUG=1).
func debugCheckRewrite(kind string, a, b, res *T, raw *T) {
	syms := map[string]struct{}{}
	CollectSyms(raw, map[*T]struct{}{}, syms)
	var names []string
	widths := map[string]uint8{}
	var findW func(t *T)
	seen := map[*T]bool{}
	findW = func(t *T) {
		if seen[t] {
			return
		}
		seen[t] = true
		if t.Op == OSym {
			widths[t.Name] = t.W
		}
		for _, x := range t.A {
			findW(x)
		}
	}
	findW(raw)
	for s := range syms {
		if s[0] == 's' {
			names = append(names, s[2:])
		}
	}
	var nodes []*T
	for t := range seen {
		if t.rng {
			nodes = append(nodes, t)
		}
	}
	x := uint64(88172645463325252)
	next := func() uint64 { x ^= x << 13; x ^= x >> 7; x ^= x << 17; return x }
	specials := []uint64{0, 1, 2, 252, 253, 254, 255, 32767, 32768, 32769, 65535, 65536, 70000, 1 << 31, 1 << 32}
	for i := 0; i < 3000; i++ {
		m := NewModel()
		for _, n := range names {
			v := next()
			if next()%2 == 0 {
				v = specials[next()%uint64(len(specials))] + next()%3 - 1
			}
			m.Syms[n] = v & Mask(widths[n])
		}
		ev := NewEvaluator(m)
		ok := true
		for _, t := range nodes {
			v := ev.Eval(t)
			if v < t.lo || v > t.hi {
				ok = false
				break
			}
		}
		if !ok {
			continue
		}
		if ev.Eval(raw) != ev.Eval(res) {
			fmt.Printf("LINDEBUG unsound %s rewrite:\n  a=%s\n  b=%s\n  raw=%s\n  res=%s\n  model=%v\n", kind, a.str(12), b.str(12), raw.str(12), res.str(12), m.Syms)
			for _, t := range nodes {
				fmt.Printf("   ranged node %s in [%d,%d] = %d\n", t.str(4), t.lo, t.hi, ev.Eval(t))
			}
			return
		}
	}
}
