package term

// Linear reasoning over exact (non-wrapping) sums, used by the comparison
// constructors to decide conditions such as (x+10) < (x+y+18) without a
// solver call, and to normalise comparisons between sums that share terms,
// constants or a common factor (clock arithmetic: t0 + d1*10^6 < t0 + d2*10^6
// becomes d1 < d2).  A sum is "exact" when every Add/Sub/Mul node on its spine
// carries an interval that was derived without wrap-around.  All coefficient
// arithmetic is overflow-checked; any doubt makes the analysis give up.

type linTerm struct {
	t *T
	c int64
}

type lin struct {
	ts     []linTerm
	k      int64
	ok     bool
	visits int
}

const linLimit = uint64(1) << 62

func mulOK(a, b int64) (int64, bool) {
	if a == 0 || b == 0 {
		return 0, true
	}
	r := a * b
	if r/b != a || (a == -1 && b == -1<<63) || (b == -1 && a == -1<<63) {
		return 0, false
	}
	return r, true
}

func addOK(a, b int64) (int64, bool) {
	r := a + b
	if (a > 0 && b > 0 && r < 0) || (a < 0 && b < 0 && r >= 0) {
		return 0, false
	}
	return r, true
}

func (l *lin) add(t *T, c int64) {
	l.visits++
	for i := range l.ts {
		if l.ts[i].t == t || (l.ts[i].t.H == t.H && Equal(l.ts[i].t, t)) {
			s, ok := addOK(l.ts[i].c, c)
			if !ok {
				l.ok = false
				return
			}
			l.ts[i].c = s
			return
		}
	}
	l.ts = append(l.ts, linTerm{t, c})
}

// walk adds c*t to the sum.  top: t may be a wrapping subtraction of two exact sums below 2^62,
// whose two's-complement value read as a signed number is the integer difference.
func (l *lin) walk(t *T, c int64, depth int, top bool) {
	if !l.ok {
		return
	}
	if depth > 24 || c > 1<<40 || c < -(1<<40) {
		l.ok = false
		return
	}
	switch t.Op {
	case OConst:
		if t.C >= linLimit {
			l.ok = false
			return
		}
		p, ok := mulOK(c, int64(t.C))
		if !ok {
			l.ok = false
			return
		}
		s, ok := addOK(l.k, p)
		if !ok {
			l.ok = false
			return
		}
		l.k = s
		l.visits++
		return
	case OAdd:
		if t.rng {
			l.walk(t.A[0], c, depth+1, false)
			l.walk(t.A[1], c, depth+1, false)
			return
		}
	case OSub:
		if t.rng {
			l.walk(t.A[0], c, depth+1, false)
			l.walk(t.A[1], -c, depth+1, false)
			return
		}
		if top {
			_, h0 := t.A[0].Range()
			_, h1 := t.A[1].Range()
			if h0 < linLimit && h1 < linLimit {
				l.walk(t.A[0], c, depth+1, false)
				l.walk(t.A[1], -c, depth+1, false)
				return
			}
		}
	case OMul:
		if t.rng && t.A[1].IsConst() && t.A[1].C < 1<<32 {
			p, ok := mulOK(c, int64(t.A[1].C))
			if !ok {
				l.ok = false
				return
			}
			l.walk(t.A[0], p, depth+1, false)
			return
		}
	case OShl:
		if t.rng && t.A[1].IsConst() && t.A[1].C < 16 {
			l.walk(t.A[0], c<<t.A[1].C, depth+1, false)
			return
		}
	case OZExt:
		l.walk(t.A[0], c, depth+1, false)
		return
	}
	if top && t.Op == OSub {
		l.ok = false
		return
	}
	_, hi := t.Range()
	if hi >= linLimit {
		l.ok = false
		return
	}
	l.add(t, c)
}

func (l *lin) bounds() (lo, hi int64, ok bool) {
	lo, hi = l.k, l.k
	for _, x := range l.ts {
		if x.c == 0 {
			continue
		}
		tl, th := x.t.Range()
		a, ok1 := mulOK(x.c, int64(tl))
		b, ok2 := mulOK(x.c, int64(th))
		if !ok1 || !ok2 {
			return 0, 0, false
		}
		if x.c < 0 {
			a, b = b, a
		}
		var o1, o2 bool
		lo, o1 = addOK(lo, a)
		hi, o2 = addOK(hi, b)
		if !o1 || !o2 {
			return 0, 0, false
		}
	}
	return lo, hi, true
}

// diff returns the linear form of (b - a) over the integers.  signed: a and b are read as signed
// numbers (each an exact sum, or a wrapping difference of two exact sums).
func diff(a, b *T, signed bool) (*lin, bool) {
	l := &lin{ok: true}
	l.walk(b, 1, 0, signed)
	l.walk(a, -1, 0, signed)
	if !l.ok {
		return nil, false
	}
	return l, true
}

// diffBounds returns bounds on (b - a) over the integers, if both are exact sums.
func diffBounds(a, b *T) (lo, hi int64, ok bool) {
	l, ok := diff(a, b, false)
	if !ok {
		return 0, 0, false
	}
	return l.bounds()
}

func gcd64(a, b int64) int64 {
	if a < 0 {
		a = -a
	}
	if b < 0 {
		b = -b
	}
	for b != 0 {
		a, b = b, a%b
	}
	return a
}

// split rebuilds 0 < l as lhs < rhs between two non-negative exact sums of width w, dividing by the
// common factor.  improved reports whether the result is simpler than the comparison it came from.
func (l *lin) split(w uint8) (lhs, rhs *T, improved, ok bool) {
	var g int64
	n := 0
	for _, x := range l.ts {
		if x.c != 0 {
			g = gcd64(g, x.c)
			n++
		}
	}
	if n == 0 {
		return nil, nil, false, false
	}
	k := l.k
	if k != 0 {
		n++
		if k%g != 0 {
			// 0 < g*S + k  <=>  0 < S + ceil(k/g) ... keep it simple: no division
			g = 1
		}
	}
	if g == 0 {
		g = 1
	}
	lhs, rhs = Const(w, 0), Const(w, 0)
	for _, x := range l.ts {
		if x.c == 0 {
			continue
		}
		t := x.t
		if t.W > w {
			return nil, nil, false, false
		}
		if t.W < w {
			if t.W == 0 {
				return nil, nil, false, false
			}
			t = ZExt(t, w)
		}
		c := x.c / g
		neg := c < 0
		if neg {
			c = -c
		}
		if c != 1 {
			t = Mul(t, Const(w, uint64(c)))
		}
		if neg {
			lhs = Add(lhs, t)
		} else {
			rhs = Add(rhs, t)
		}
	}
	k /= g
	if k < 0 {
		lhs = Add(lhs, Const(w, uint64(-k)))
	} else if k > 0 {
		rhs = Add(rhs, Const(w, uint64(k)))
	}
	_, lh := lhs.Range()
	_, rh := rhs.Range()
	if lh >= linLimit || rh >= linLimit {
		return nil, nil, false, false
	}
	return lhs, rhs, n < l.visits || g > 1, true
}

// linUlt tries to decide a < b (unsigned). Both must be exact sums.
func linUlt(a, b *T) (res bool, decided bool) {
	if a.W != b.W || a.W == 0 {
		return false, false
	}
	lo, hi, ok := diffBounds(a, b)
	if !ok {
		return false, false
	}
	if lo >= 1 {
		return true, true
	}
	if hi <= 0 {
		return false, true
	}
	return false, false
}

// linCmp decides or normalises a < b.  It returns nil when it has nothing to offer.
func linCmp(a, b *T, signed bool) *T {
	if a.W != b.W || a.W == 0 {
		return nil
	}
	l, ok := diff(a, b, signed)
	if !ok {
		return nil
	}
	lo, hi, ok := l.bounds()
	if !ok {
		return nil
	}
	if lo >= 1 {
		return True
	}
	if hi <= 0 {
		return False
	}
	if signed {
		// both sides must be small enough for the signed reading to be the integer value
		for _, side := range []*T{a, b} {
			s := &lin{ok: true}
			s.walk(side, 1, 0, true)
			if !s.ok {
				return nil
			}
			slo, shi, ok := s.bounds()
			if !ok || slo <= -(1<<62) || shi >= 1<<62 {
				return nil
			}
		}
	}
	lhs, rhs, improved, ok := l.split(a.W)
	if !ok || (!improved && !signed) {
		return nil
	}
	return ultRaw(lhs, rhs)
}

// linEq tries to decide a == b.
func linEq(a, b *T) (res bool, decided bool) {
	if a.W != b.W || a.W == 0 {
		return false, false
	}
	lo, hi, ok := diffBounds(a, b)
	if !ok {
		return false, false
	}
	if lo == 0 && hi == 0 {
		return true, true
	}
	if lo >= 1 || hi <= -1 {
		return false, true
	}
	return false, false
}
