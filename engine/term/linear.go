package term

// Linear reasoning over exact (non-wrapping) sums, used by the comparison
// constructors to decide conditions such as (x+10) < (x+y+18) without a
// solver call.  A sum is "exact" when every Add/Sub/Mul node on its spine
// carries an interval that was derived without wrap-around.

type linTerm struct {
	t *T
	c int64
}

type lin struct {
	ts []linTerm
	k  int64
	ok bool
}

const linLimit = uint64(1) << 56

func (l *lin) add(t *T, c int64) {
	for i := range l.ts {
		if l.ts[i].t == t || (l.ts[i].t.H == t.H && Equal(l.ts[i].t, t)) {
			l.ts[i].c += c
			return
		}
	}
	l.ts = append(l.ts, linTerm{t, c})
}

func (l *lin) walk(t *T, c int64, depth int) {
	if !l.ok {
		return
	}
	if depth > 24 || c > 1<<20 || c < -(1<<20) {
		l.ok = false
		return
	}
	switch t.Op {
	case OConst:
		if t.C >= linLimit {
			l.ok = false
			return
		}
		l.k += c * int64(t.C)
		return
	case OAdd:
		if t.rng {
			l.walk(t.A[0], c, depth+1)
			l.walk(t.A[1], c, depth+1)
			return
		}
	case OSub:
		if t.rng {
			l.walk(t.A[0], c, depth+1)
			l.walk(t.A[1], -c, depth+1)
			return
		}
	case OMul:
		if t.rng && t.A[1].IsConst() && t.A[1].C < 1<<16 {
			l.walk(t.A[0], c*int64(t.A[1].C), depth+1)
			return
		}
	case OShl:
		if t.rng && t.A[1].IsConst() && t.A[1].C < 16 {
			l.walk(t.A[0], c<<t.A[1].C, depth+1)
			return
		}
	case OZExt:
		l.walk(t.A[0], c, depth+1)
		return
	}
	_, hi := t.Range()
	if hi >= linLimit {
		l.ok = false
		return
	}
	l.add(t, c)
}

// diffBounds returns bounds on (b - a) over the integers, if both are exact sums.
func diffBounds(a, b *T) (lo, hi int64, ok bool) {
	l := lin{ok: true}
	l.walk(b, 1, 0)
	l.walk(a, -1, 0)
	if !l.ok {
		return 0, 0, false
	}
	lo, hi = l.k, l.k
	for _, x := range l.ts {
		if x.c == 0 {
			continue
		}
		tl, th := x.t.Range()
		if x.c > 0 {
			lo += x.c * int64(tl)
			hi += x.c * int64(th)
		} else {
			lo += x.c * int64(th)
			hi += x.c * int64(tl)
		}
	}
	return lo, hi, true
}

// linUlt tries to decide a < b (unsigned). Both must be exact sums.
func linUlt(a, b *T) (res bool, decided bool) {
	if a.W != b.W || a.W == 0 {
		return false, false
	}
	lo, hi, ok := diffBounds(a, b)
	if !ok {
		return false, false
	}
	if lo >= 1 {
		return true, true
	}
	if hi <= 0 {
		return false, true
	}
	return false, false
}

// linEq tries to decide a == b.
func linEq(a, b *T) (res bool, decided bool) {
	if a.W != b.W || a.W == 0 {
		return false, false
	}
	lo, hi, ok := diffBounds(a, b)
	if !ok {
		return false, false
	}
	if lo == 0 && hi == 0 {
		return true, true
	}
	if lo >= 1 || hi <= -1 {
		return false, true
	}
	return false, false
}
