// Package term: bit-vector / boolean term DAG with constant folding,
// light simplification, model evaluation and SMT-LIB2 printing.
package term

import (
	"fmt"
	"math/bits"
	"sort"
	"strings"
)

type Op uint8

const (
	OConst Op = iota
	OSym
	OAdd
	OSub
	OMul
	OUDiv
	OURem
	OSDiv
	OSRem
	OAnd
	OOr
	OXor
	OShl
	OLShr
	OAShr
	ONot
	ONeg
	OEq
	OUlt
	OUle
	OSlt
	OSle
	OIte
	OExtract
	OZExt
	OSExt
	OBAnd
	OBOr
	OBNot
	OUF
)

var opName = map[Op]string{OAdd: "bvadd", OSub: "bvsub", OMul: "bvmul", OUDiv: "bvudiv", OURem: "bvurem", OSDiv: "bvsdiv", OSRem: "bvsrem",
	OAnd: "bvand", OOr: "bvor", OXor: "bvxor", OShl: "bvshl", OLShr: "bvlshr", OAShr: "bvashr", ONot: "bvnot", ONeg: "bvneg",
	OEq: "=", OUlt: "bvult", OUle: "bvule", OSlt: "bvslt", OSle: "bvsle", OIte: "ite", OBAnd: "and", OBOr: "or", OBNot: "not"}

// T is a term. W==0 means Bool sort; otherwise a bit-vector of width W (<=64).
type T struct {
	Op   Op
	W    uint8
	C    uint64
	A    []*T
	Name string
	Hi   uint8
	Lo   uint8
	H    uint64 // structural hash
	lo   uint64 // unsigned interval (valid if rng)
	hi   uint64
	rng  bool
	// exact: the node is an Add/Sub/Mul/Shl whose interval was derived from its operands' intervals with no
	// wrap-around possible (so it denotes the mathematical sum/difference/product).  Never set by SetRange/Refine.
	exact bool
}

func Mask(w uint8) uint64 {
	if w >= 64 {
		return ^uint64(0)
	}
	return (uint64(1) << w) - 1
}

var (
	True  = (&T{Op: OConst, W: 0, C: 1}).fin()
	False = (&T{Op: OConst, W: 0, C: 0}).fin()
)

func mix(h, v uint64) uint64 {
	h ^= v + 0x9e3779b97f4a7c15 + (h << 6) + (h >> 2)
	h *= 0xff51afd7ed558ccd
	return h ^ (h >> 29)
}

// fin computes the structural hash.
func (t *T) fin() *T {
	h := mix(uint64(t.Op)<<8|uint64(t.W), t.C)
	h = mix(h, uint64(t.Hi)<<8|uint64(t.Lo))
	for i := 0; i < len(t.Name); i++ {
		h = mix(h, uint64(t.Name[i]))
	}
	for _, a := range t.A {
		h = mix(h, a.H)
	}
	t.H = h
	return t
}

// Equal is structural equality.
func Equal(a, b *T) bool {
	n := 0
	return deepEq(a, b, &n)
}

func deepEq(a, b *T, n *int) bool {
	if a == b {
		return true
	}
	if a.H != b.H || a.Op != b.Op || a.W != b.W || a.C != b.C || a.Hi != b.Hi || a.Lo != b.Lo || a.Name != b.Name || len(a.A) != len(b.A) {
		return false
	}
	*n++
	if *n > 20000 {
		return false
	}
	for i := range a.A {
		if !deepEq(a.A[i], b.A[i], n) {
			return false
		}
	}
	return true
}

func Bool(b bool) *T {
	if b {
		return True
	}
	return False
}

var smallConsts [65][]*T

func init() {
	for w := 1; w <= 64; w++ {
		smallConsts[w] = make([]*T, 300)
	}
}

func Const(w uint8, v uint64) *T {
	if w == 0 {
		return Bool(v != 0)
	}
	v &= Mask(w)
	if v < 300 {
		p := smallConsts[w][v]
		if p == nil {
			p = (&T{Op: OConst, W: w, C: v}).fin()
			smallConsts[w][v] = p
		}
		return p
	}
	return (&T{Op: OConst, W: w, C: v}).fin()
}

func Sym(name string, w uint8) *T { return (&T{Op: OSym, W: w, Name: name}).fin() }

func (t *T) IsConst() bool { return t.Op == OConst }
func (t *T) IsTrue() bool  { return t.Op == OConst && t.W == 0 && t.C == 1 }
func (t *T) IsFalse() bool { return t.Op == OConst && t.W == 0 && t.C == 0 }

// Signed returns the constant as a sign-extended int64.
func (t *T) Signed() int64 { return sext(t.C, t.W) }

func sext(v uint64, w uint8) int64 {
	if w >= 64 {
		return int64(v)
	}
	sh := 64 - uint(w)
	return int64(v<<sh) >> sh
}

// Range returns an unsigned interval containing every value of t.
func (t *T) Range() (uint64, uint64) {
	if t.W == 0 {
		if t.Op == OConst {
			return t.C, t.C
		}
		return 0, 1
	}
	if t.Op == OConst {
		return t.C, t.C
	}
	if t.rng {
		return t.lo, t.hi
	}
	return 0, Mask(t.W)
}

func (t *T) setRange(lo, hi uint64) *T {
	if lo <= hi {
		t.lo, t.hi, t.rng = lo, hi, true
	}
	return t
}

// SetRange records a known unsigned interval for t (must be justified by an
// assumption on the path: the caller adds the corresponding constraint).
func (t *T) SetRange(lo, hi uint64) {
	if t.Op == OConst {
		return
	}
	l0, h0 := t.Range()
	if lo < l0 {
		lo = l0
	}
	if hi > h0 {
		hi = h0
	}
	t.setRange(lo, hi)
}

// Refine narrows the interval of t (and of the symbol it is built from where
// the relation is invertible). The caller guarantees lo <= t <= hi on the path.
func Refine(t *T, lo, hi uint64) {
	if lo > hi {
		return
	}
	switch t.Op {
	case OConst:
		return
	case OZExt:
		m := Mask(t.A[0].W)
		h := hi
		if h > m {
			h = m
		}
		Refine(t.A[0], lo, h)
	case OAdd:
		if t.exact && t.A[1].IsConst() {
			c := t.A[1].C
			if hi >= c {
				l := uint64(0)
				if lo > c {
					l = lo - c
				}
				Refine(t.A[0], l, hi-c)
			}
		}
	}
	t.SetRange(lo, hi)
}

func mk(op Op, w uint8, a ...*T) *T { return (&T{Op: op, W: w, A: a}).fin() }

func same(a, b *T) bool {
	if a == b {
		return true
	}
	if a.H != b.H {
		return false
	}
	return Equal(a, b)
}

// single replaces a term whose interval is one value by that constant.
func single(t *T) *T {
	if t.Op != OConst && t.rng && t.lo == t.hi && t.W != 0 {
		return Const(t.W, t.lo)
	}
	return t
}

func chk(a, b *T) {
	if a.W != b.W {
		panic(fmt.Sprintf("term: width mismatch %d vs %d (%s, %s)", a.W, b.W, a, b))
	}
}

func Add(a, b *T) *T {
	chk(a, b)
	a, b = single(a), single(b)
	if !a.IsConst() && !b.IsConst() && a.H > b.H {
		a, b = b, a
	}
	if a.IsConst() && b.IsConst() {
		return Const(a.W, a.C+b.C)
	}
	if a.IsConst() {
		a, b = b, a
	}
	if b.IsConst() {
		if b.C == 0 {
			return a
		}
		// (x + c1) + c2
		if a.Op == OAdd && a.A[1].IsConst() {
			return Add(a.A[0], Const(a.W, a.A[1].C+b.C))
		}
		if a.Op == OSub && a.A[1].IsConst() {
			return Add(a.A[0], Const(a.W, b.C-a.A[1].C))
		}
	}
	r := mk(OAdd, a.W, a, b)
	al, ah := a.Range()
	bl, bh := b.Range()
	m := Mask(a.W)
	if ah <= m-bh { // no overflow
		r.setRange(al+bl, ah+bh)
		r.exact = true
	}
	return r
}

func Sub(a, b *T) *T {
	chk(a, b)
	a, b = single(a), single(b)
	if a.IsConst() && b.IsConst() {
		return Const(a.W, a.C-b.C)
	}
	if same(a, b) {
		return Const(a.W, 0)
	}
	if b.IsConst() {
		if b.C == 0 {
			return a
		}
		if a.Op == OAdd && a.A[1].IsConst() {
			return Add(a.A[0], Const(a.W, a.A[1].C-b.C))
		}
		if a.Op == OSub && a.A[1].IsConst() {
			return Sub(a.A[0], Const(a.W, a.A[1].C+b.C))
		}
	}
	// (x + y) - x
	if a.Op == OAdd {
		if same(a.A[0], b) {
			return a.A[1]
		}
		if same(a.A[1], b) {
			return a.A[0]
		}
	}
	// difference of two exact sums that share terms: (x + 55) - (x + 9) = 46, (x + y + 3) - y = x + 3
	if !b.IsConst() && (a.Op == OAdd || b.Op == OAdd) {
		if d := linSub(a, b); d != nil {
			return d
		}
	}
	r := mk(OSub, a.W, a, b)
	al, ah := a.Range()
	bl, bh := b.Range()
	if al >= bh {
		r.setRange(al-bh, ah-bl)
		r.exact = true
	}
	return r
}

func Mul(a, b *T) *T {
	chk(a, b)
	a, b = single(a), single(b)
	if !a.IsConst() && !b.IsConst() && a.H > b.H {
		a, b = b, a
	}
	if a.IsConst() && b.IsConst() {
		return Const(a.W, a.C*b.C)
	}
	if a.IsConst() {
		a, b = b, a
	}
	if b.IsConst() {
		if b.C == 0 {
			return b
		}
		if b.C == 1 {
			return a
		}
	}
	_, ah := a.Range()
	al, _ := a.Range()
	bl, bh := b.Range()
	hi, lo := bits.Mul64(ah, bh)
	if hi == 0 && !b.IsConst() {
		var nw uint8 = a.W
		switch {
		case lo < 1<<16 && a.W > 16:
			nw = 16
		case lo < 1<<32 && a.W > 32:
			nw = 32
		}
		if nw < a.W {
			return ZExt(Mul(Extract(a, nw-1, 0), Extract(b, nw-1, 0)), a.W)
		}
	}
	r := mk(OMul, a.W, a, b)
	if hi == 0 && lo <= Mask(a.W) {
		r.setRange(al*bl, lo)
		r.exact = true
	}
	return r
}

func UDiv(a, b *T) *T {
	chk(a, b)
	a, b = single(a), single(b)
	if b.IsConst() && b.C != 0 {
		if a.IsConst() {
			return Const(a.W, a.C/b.C)
		}
		if b.C == 1 {
			return a
		}
	}
	// (x * c) / c == x when the product did not wrap
	if b.IsConst() && b.C != 0 && a.Op == OMul && a.exact && a.A[1].IsConst() && a.A[1].C == b.C {
		return a.A[0]
	}
	if nw := narrowWidth(a, b); nw < a.W {
		return ZExt(UDiv(Extract(a, nw-1, 0), Extract(b, nw-1, 0)), a.W)
	}
	r := mk(OUDiv, a.W, a, b)
	al, ah := a.Range()
	bl, bh := b.Range()
	if bl > 0 {
		r.setRange(al/bh, ah/bl)
	}
	return r
}

// narrowWidth returns a smaller width (16 or 32) at which a and b can be operated on without losing bits.
func narrowWidth(a, b *T) uint8 {
	_, ah := a.Range()
	_, bh := b.Range()
	m := ah
	if bh > m {
		m = bh
	}
	switch {
	case m < 1<<16 && a.W > 16:
		return 16
	case m < 1<<32 && a.W > 32:
		return 32
	}
	return a.W
}

func URem(a, b *T) *T {
	chk(a, b)
	a, b = single(a), single(b)
	if b.IsConst() && b.C != 0 {
		if a.IsConst() {
			return Const(a.W, a.C%b.C)
		}
		if b.C == 1 {
			return Const(a.W, 0)
		}
	}
	if nw := narrowWidth(a, b); nw < a.W {
		return ZExt(URem(Extract(a, nw-1, 0), Extract(b, nw-1, 0)), a.W)
	}
	r := mk(OURem, a.W, a, b)
	_, ah := a.Range()
	bl, bh := b.Range()
	if bl > 0 {
		h := bh - 1
		if ah < h {
			h = ah
		}
		r.setRange(0, h)
	}
	return r
}

func SDiv(a, b *T) *T {
	chk(a, b)
	if a.IsConst() && b.IsConst() && b.C != 0 {
		x, y := a.Signed(), b.Signed()
		if y == -1 {
			return Const(a.W, uint64(-x))
		}
		return Const(a.W, uint64(x/y))
	}
	if b.IsConst() && b.C == 1 {
		return a
	}
	// both provably non-negative: unsigned division
	_, ah := a.Range()
	bl, bh := b.Range()
	sm := Mask(a.W) >> 1
	if ah <= sm && bh <= sm && bl > 0 {
		return UDiv(a, b)
	}
	return mk(OSDiv, a.W, a, b)
}

func SRem(a, b *T) *T {
	chk(a, b)
	if a.IsConst() && b.IsConst() && b.C != 0 {
		x, y := a.Signed(), b.Signed()
		if y == -1 {
			return Const(a.W, 0)
		}
		return Const(a.W, uint64(x%y))
	}
	_, ah := a.Range()
	bl, bh := b.Range()
	sm := Mask(a.W) >> 1
	if ah <= sm && bh <= sm && bl > 0 {
		return URem(a, b)
	}
	return mk(OSRem, a.W, a, b)
}

func And(a, b *T) *T {
	chk(a, b)
	a, b = single(a), single(b)
	if !a.IsConst() && !b.IsConst() && a.H > b.H {
		a, b = b, a
	}
	if a.IsConst() && b.IsConst() {
		return Const(a.W, a.C&b.C)
	}
	if a.IsConst() {
		a, b = b, a
	}
	if b.IsConst() {
		if b.C == 0 {
			return b
		}
		if b.C == Mask(a.W) {
			return a
		}
		_, ah := a.Range()
		// mask of form 2^k-1 covering range
		if b.C&(b.C+1) == 0 && ah <= b.C {
			return a
		}
	}
	if same(a, b) {
		return a
	}
	r := mk(OAnd, a.W, a, b)
	_, ah := a.Range()
	_, bh := b.Range()
	h := ah
	if bh < h {
		h = bh
	}
	r.setRange(0, h)
	return r
}

func Or(a, b *T) *T {
	chk(a, b)
	a, b = single(a), single(b)
	if !a.IsConst() && !b.IsConst() && a.H > b.H {
		a, b = b, a
	}
	if a.IsConst() && b.IsConst() {
		return Const(a.W, a.C|b.C)
	}
	if a.IsConst() {
		a, b = b, a
	}
	if b.IsConst() {
		if b.C == 0 {
			return a
		}
		if b.C == Mask(a.W) {
			return b
		}
	}
	if same(a, b) {
		return a
	}
	if m := mergePieces(a, b); m != nil {
		return m
	}
	r := mk(OOr, a.W, a, b)
	_, ah := a.Range()
	_, bh := b.Range()
	n := bits.Len64(ah | bh)
	if n < 64 {
		r.setRange(0, (uint64(1)<<uint(n))-1)
	}
	return r
}

// piece decomposes t as zext(extract(x,hi,lo)) << sh.
func piece(t *T) (x *T, hi, lo, sh uint8, ok bool) {
	if t.Op == OShl && t.A[1].IsConst() && t.A[1].C < 64 {
		x, hi, lo, sh, ok = piece(t.A[0])
		if !ok || uint64(sh)+t.A[1].C >= uint64(t.W) {
			return nil, 0, 0, 0, false
		}
		return x, hi, lo, sh + uint8(t.A[1].C), true
	}
	in := t
	if t.Op == OZExt {
		in = t.A[0]
	}
	if in.Op == OExtract {
		return in.A[0], in.Hi, in.Lo, 0, true
	}
	if in.Op == OConst || in.W > 64 {
		return nil, 0, 0, 0, false
	}
	if in != t { // zext of a whole narrower value
		return in, in.W - 1, 0, 0, true
	}
	return nil, 0, 0, 0, false
}

// mergePieces recognises (hi-part << k) | lo-part of the same base value.
func mergePieces(a, b *T) *T {
	xa, ha, la, sa, ok := piece(a)
	if !ok {
		return nil
	}
	xb, hb, lb, sb, ok := piece(b)
	if !ok || !same(xa, xb) {
		return nil
	}
	if sa < sb {
		ha, la, sa, hb, lb, sb = hb, lb, sb, ha, la, sa
	}
	// a is the high part
	if la != hb+1 || sa-sb != hb-lb+1 {
		return nil
	}
	w := a.W
	if uint16(ha-lb+1)+uint16(sb) > uint16(w) {
		return nil
	}
	r := ZExt(Extract(xa, ha, lb), w)
	if sb > 0 {
		r = Shl(r, Const(w, uint64(sb)))
	}
	return r
}

func Xor(a, b *T) *T {
	chk(a, b)
	if !a.IsConst() && !b.IsConst() && a.H > b.H {
		a, b = b, a
	}
	if a.IsConst() && b.IsConst() {
		return Const(a.W, a.C^b.C)
	}
	if a.IsConst() {
		a, b = b, a
	}
	if b.IsConst() && b.C == 0 {
		return a
	}
	if same(a, b) {
		return Const(a.W, 0)
	}
	return mk(OXor, a.W, a, b)
}

// Shl etc: b must have the same width as a (caller adjusts).
func Shl(a, b *T) *T {
	chk(a, b)
	if b.IsConst() {
		if b.C == 0 {
			return a
		}
		if b.C >= uint64(a.W) {
			return Const(a.W, 0)
		}
		if a.IsConst() {
			return Const(a.W, a.C<<b.C)
		}
		r := mk(OShl, a.W, a, b)
		_, ah := a.Range()
		if bits.Len64(ah)+int(b.C) <= int(a.W) {
			al, _ := a.Range()
			r.setRange(al<<b.C, ah<<b.C)
			r.exact = true
		}
		return r
	}
	return mk(OShl, a.W, a, b)
}

func LShr(a, b *T) *T {
	chk(a, b)
	if b.IsConst() {
		if b.C == 0 {
			return a
		}
		if b.C >= uint64(a.W) {
			return Const(a.W, 0)
		}
		if a.IsConst() {
			return Const(a.W, a.C>>b.C)
		}
		r := mk(OLShr, a.W, a, b)
		al, ah := a.Range()
		r.setRange(al>>b.C, ah>>b.C)
		return r
	}
	r := mk(OLShr, a.W, a, b)
	_, ah := a.Range()
	r.setRange(0, ah)
	return r
}

func AShr(a, b *T) *T {
	chk(a, b)
	if b.IsConst() {
		if b.C == 0 {
			return a
		}
		if a.IsConst() {
			s := b.C
			if s >= uint64(a.W) {
				s = uint64(a.W) - 1
			}
			return Const(a.W, uint64(a.Signed()>>s))
		}
	}
	_, ah := a.Range()
	if ah <= Mask(a.W)>>1 {
		return LShr(a, b)
	}
	return mk(OAShr, a.W, a, b)
}

func Not(a *T) *T {
	if a.IsConst() {
		return Const(a.W, ^a.C)
	}
	if a.Op == ONot {
		return a.A[0]
	}
	return mk(ONot, a.W, a)
}

func Neg(a *T) *T {
	if a.IsConst() {
		return Const(a.W, -a.C)
	}
	return mk(ONeg, a.W, a)
}

func BNot(a *T) *T {
	if a.W != 0 {
		panic("BNot on non-bool")
	}
	if a.IsConst() {
		return Bool(a.C == 0)
	}
	if a.Op == OBNot {
		return a.A[0]
	}
	return mk(OBNot, 0, a)
}

func BAnd(a, b *T) *T {
	if a.IsConst() {
		if a.C == 0 {
			return False
		}
		return b
	}
	if b.IsConst() {
		if b.C == 0 {
			return False
		}
		return a
	}
	if same(a, b) {
		return a
	}
	return mk(OBAnd, 0, a, b)
}

func BOr(a, b *T) *T {
	if a.IsConst() {
		if a.C == 1 {
			return True
		}
		return b
	}
	if b.IsConst() {
		if b.C == 1 {
			return True
		}
		return a
	}
	if same(a, b) {
		return a
	}
	return mk(OBOr, 0, a, b)
}

func Implies(a, b *T) *T { return BOr(BNot(a), b) }

func Eq(a, b *T) *T {
	chk(a, b)
	a, b = single(a), single(b)
	if !a.IsConst() && !b.IsConst() && a.H > b.H {
		a, b = b, a
	}
	if a.IsConst() && b.IsConst() {
		return Bool(a.C == b.C)
	}
	if same(a, b) {
		return True
	}
	if a.IsConst() {
		a, b = b, a
	}
	if b.IsConst() {
		if a.W == 0 {
			if b.C == 1 {
				return a
			}
			return BNot(a)
		}
		lo, hi := a.Range()
		if b.C < lo || b.C > hi {
			return False
		}
		// ite(c, k1, k2) == k
		if a.Op == OIte && a.A[1].IsConst() && a.A[2].IsConst() {
			t1 := a.A[1].C == b.C
			t2 := a.A[2].C == b.C
			switch {
			case t1 && t2:
				return True
			case t1:
				return a.A[0]
			case t2:
				return BNot(a.A[0])
			default:
				return False
			}
		}
		if a.Op == OZExt {
			in := a.A[0]
			if b.C > Mask(in.W) {
				return False
			}
			return Eq(in, Const(in.W, b.C))
		}
		if a.Op == OAdd && a.A[1].IsConst() {
			return Eq(a.A[0], Const(a.W, b.C-a.A[1].C))
		}
	} else {
		al, ah := a.Range()
		bl, bh := b.Range()
		if ah < bl || bh < al {
			return False
		}
		if a.Op == OZExt && b.Op == OZExt && a.A[0].W == b.A[0].W {
			return Eq(a.A[0], b.A[0])
		}
	}
	if a.W != 0 {
		if r, ok := linEq(a, b); ok {
			return Bool(r)
		}
	}
	return mk(OEq, 0, a, b)
}

func Ne(a, b *T) *T { return BNot(Eq(a, b)) }

func Ult(a, b *T) *T { return ult(a, b, true) }

func ultRaw(a, b *T) *T { return ult(a, b, false) }

func ult(a, b *T, norm bool) *T {
	chk(a, b)
	a, b = single(a), single(b)
	if a.IsConst() && b.IsConst() {
		return Bool(a.C < b.C)
	}
	if same(a, b) {
		return False
	}
	al, ah := a.Range()
	bl, bh := b.Range()
	if ah < bl {
		return True
	}
	if al >= bh {
		return False
	}
	if a.Op == OZExt && b.Op == OZExt && a.A[0].W == b.A[0].W {
		return ult(a.A[0], b.A[0], norm)
	}
	if a.Op == OZExt && b.IsConst() && b.C <= Mask(a.A[0].W) {
		return ult(a.A[0], Const(a.A[0].W, b.C), norm)
	}
	if b.Op == OZExt && a.IsConst() && a.C <= Mask(b.A[0].W) {
		return ult(Const(b.A[0].W, a.C), b.A[0], norm)
	}
	if norm {
		if r := linCmp(a, b, false); r != nil {
			return r
		}
	} else if r, ok := linUlt(a, b); ok {
		return Bool(r)
	}
	return mk(OUlt, 0, a, b)
}

func Ule(a, b *T) *T { return BNot(Ult(b, a)) }
func Ugt(a, b *T) *T { return Ult(b, a) }
func Uge(a, b *T) *T { return BNot(Ult(a, b)) }

func nonNeg(t *T) bool {
	_, h := t.Range()
	return h <= Mask(t.W)>>1
}

func Slt(a, b *T) *T {
	chk(a, b)
	a, b = single(a), single(b)
	if a.IsConst() && b.IsConst() {
		return Bool(a.Signed() < b.Signed())
	}
	if same(a, b) {
		return False
	}
	if nonNeg(a) && nonNeg(b) {
		return Ult(a, b)
	}
	if r := linCmp(a, b, true); r != nil {
		return r
	}
	return mk(OSlt, 0, a, b)
}

func Sle(a, b *T) *T { return BNot(Slt(b, a)) }
func Sgt(a, b *T) *T { return Slt(b, a) }
func Sge(a, b *T) *T { return BNot(Slt(a, b)) }

func Ite(c, a, b *T) *T {
	chk(a, b)
	if c.IsConst() {
		if c.C == 1 {
			return a
		}
		return b
	}
	if same(a, b) {
		return a
	}
	if a.W == 0 {
		if a.IsConst() && b.IsConst() {
			if a.C == 1 {
				return c
			}
			return BNot(c)
		}
		if a.IsTrue() {
			return BOr(c, b)
		}
		if a.IsFalse() {
			return BAnd(BNot(c), b)
		}
		if b.IsTrue() {
			return BOr(BNot(c), a)
		}
		if b.IsFalse() {
			return BAnd(c, a)
		}
	}
	r := mk(OIte, a.W, c, a, b)
	al, ah := a.Range()
	bl, bh := b.Range()
	if bl < al {
		al = bl
	}
	if bh > ah {
		ah = bh
	}
	if a.W != 0 {
		r.setRange(al, ah)
	}
	return r
}

func Extract(a *T, hi, lo uint8) *T {
	a = single(a)
	w := hi - lo + 1
	if lo == 0 && w == a.W {
		return a
	}
	if a.IsConst() {
		return Const(w, a.C>>lo)
	}
	if lo == 0 && (a.Op == OZExt || a.Op == OSExt) {
		in := a.A[0]
		if in.W == w {
			return in
		}
		if in.W > w {
			return Extract(in, hi, 0)
		}
		if a.Op == OZExt {
			return ZExt(in, w)
		}
		return SExt(in, w)
	}
	if a.Op == OExtract {
		return Extract(a.A[0], a.Lo+hi, a.Lo+lo)
	}
	if a.Op == OLShr && a.A[1].IsConst() && uint64(hi)+a.A[1].C < uint64(a.W) {
		sh := uint8(a.A[1].C)
		return Extract(a.A[0], hi+sh, lo+sh)
	}
	if a.Op == OZExt && hi < a.A[0].W {
		return Extract(a.A[0], hi, lo)
	}
	if a.Op == OZExt && lo >= a.A[0].W {
		return Const(w, 0)
	}
	r := (&T{Op: OExtract, W: w, A: []*T{a}, Hi: hi, Lo: lo}).fin()
	if lo == 0 {
		al, ah := a.Range()
		if ah <= Mask(w) {
			r.setRange(al, ah)
		}
	}
	return r
}

func ZExt(a *T, w uint8) *T {
	a = single(a)
	if a.W == w {
		return a
	}
	if a.W > w {
		return Extract(a, w-1, 0)
	}
	if a.IsConst() {
		return Const(w, a.C)
	}
	if a.Op == OZExt {
		return ZExt(a.A[0], w)
	}
	if a.Op == OExtract && a.Lo == 0 {
		x := a.A[0]
		if _, xh := x.Range(); xh <= Mask(a.W) {
			// the truncation did not lose bits
			switch {
			case x.W == w:
				return x
			case x.W < w:
				return ZExt(x, w)
			default:
				return Extract(x, w-1, 0)
			}
		}
	}
	r := mk(OZExt, w, a)
	lo, hi := a.Range()
	r.setRange(lo, hi)
	return r
}

func SExt(a *T, w uint8) *T {
	if a.W == w {
		return a
	}
	if a.W > w {
		return Extract(a, w-1, 0)
	}
	if a.IsConst() {
		return Const(w, uint64(a.Signed()))
	}
	if nonNeg(a) {
		return ZExt(a, w)
	}
	return mk(OSExt, w, a)
}

// UF applies an uninterpreted function.
func UF(name string, w uint8, args ...*T) *T {
	return (&T{Op: OUF, W: w, Name: name, A: args}).fin()
}

// Conj builds a conjunction.
func Conj(ts ...*T) *T {
	r := True
	for _, t := range ts {
		r = BAnd(r, t)
	}
	return r
}

// ---------------------------------------------------------------- model

type Model struct {
	Syms map[string]uint64
	UFs  map[string]map[string]uint64
}

func NewModel() *Model { return &Model{Syms: map[string]uint64{}, UFs: map[string]map[string]uint64{}} }

func (m *Model) Clone() *Model {
	n := NewModel()
	for k, v := range m.Syms {
		n.Syms[k] = v
	}
	for k, t := range m.UFs {
		nt := make(map[string]uint64, len(t))
		for a, v := range t {
			nt[a] = v
		}
		n.UFs[k] = nt
	}
	return n
}

func ufKey(args []uint64) string {
	var sb strings.Builder
	for _, a := range args {
		fmt.Fprintf(&sb, "%x,", a)
	}
	return sb.String()
}

func (m *Model) SetUF(name string, args []uint64, v uint64) {
	t := m.UFs[name]
	if t == nil {
		t = map[string]uint64{}
		m.UFs[name] = t
	}
	t[ufKey(args)] = v
}

// Evaluator evaluates terms under a model, completing the model lazily
// (unassigned symbols and unseen UF applications default to 0 and are then
// fixed, which keeps the assignment a consistent total interpretation).
type Evaluator struct {
	M    *Model
	memo map[*T]uint64
}

func NewEvaluator(m *Model) *Evaluator { return &Evaluator{M: m, memo: map[*T]uint64{}} }

func (e *Evaluator) Eval(t *T) uint64 {
	if t.Op == OConst {
		return t.C
	}
	if v, ok := e.memo[t]; ok {
		return v
	}
	v := e.eval(t)
	if t.W != 0 {
		v &= Mask(t.W)
	}
	e.memo[t] = v
	return v
}

func b2u(b bool) uint64 {
	if b {
		return 1
	}
	return 0
}

func (e *Evaluator) eval(t *T) uint64 {
	switch t.Op {
	case OSym:
		v, ok := e.M.Syms[t.Name]
		if !ok {
			e.M.Syms[t.Name] = 0
		}
		return v
	case OUF:
		args := make([]uint64, len(t.A))
		for i, a := range t.A {
			args[i] = e.Eval(a)
		}
		tab := e.M.UFs[t.Name]
		if tab == nil {
			tab = map[string]uint64{}
			e.M.UFs[t.Name] = tab
		}
		k := ufKey(args)
		v, ok := tab[k]
		if !ok {
			tab[k] = 0
		}
		return v
	case OIte:
		if e.Eval(t.A[0]) != 0 {
			return e.Eval(t.A[1])
		}
		return e.Eval(t.A[2])
	case OBAnd:
		return b2u(e.Eval(t.A[0]) != 0 && e.Eval(t.A[1]) != 0)
	case OBOr:
		return b2u(e.Eval(t.A[0]) != 0 || e.Eval(t.A[1]) != 0)
	case OBNot:
		return b2u(e.Eval(t.A[0]) == 0)
	}
	a := e.Eval(t.A[0])
	var b uint64
	if len(t.A) > 1 {
		b = e.Eval(t.A[1])
	}
	w := t.A[0].W
	switch t.Op {
	case OAdd:
		return a + b
	case OSub:
		return a - b
	case OMul:
		return a * b
	case OUDiv:
		if b == 0 {
			return Mask(w)
		}
		return a / b
	case OURem:
		if b == 0 {
			return a
		}
		return a % b
	case OSDiv:
		x, y := sext(a, w), sext(b, w)
		if y == 0 {
			if x < 0 {
				return 1
			}
			return Mask(w)
		}
		if y == -1 {
			return uint64(-x)
		}
		return uint64(x / y)
	case OSRem:
		x, y := sext(a, w), sext(b, w)
		if y == 0 {
			return a
		}
		if y == -1 {
			return 0
		}
		return uint64(x % y)
	case OAnd:
		return a & b
	case OOr:
		return a | b
	case OXor:
		return a ^ b
	case OShl:
		if b >= uint64(w) {
			return 0
		}
		return a << b
	case OLShr:
		if b >= uint64(w) {
			return 0
		}
		return a >> b
	case OAShr:
		if b >= uint64(w) {
			b = uint64(w) - 1
		}
		return uint64(sext(a, w) >> b)
	case ONot:
		return ^a
	case ONeg:
		return -a
	case OEq:
		return b2u(a == b)
	case OUlt:
		return b2u(a < b)
	case OUle:
		return b2u(a <= b)
	case OSlt:
		return b2u(sext(a, w) < sext(b, w))
	case OSle:
		return b2u(sext(a, w) <= sext(b, w))
	case OExtract:
		return (a >> t.Lo) & Mask(t.Hi-t.Lo+1)
	case OZExt:
		return a
	case OSExt:
		return uint64(sext(a, w))
	}
	panic(fmt.Sprintf("eval: op %d", t.Op))
}

// ---------------------------------------------------------------- printing

func sortOf(w uint8) string {
	if w == 0 {
		return "Bool"
	}
	return fmt.Sprintf("(_ BitVec %d)", w)
}

func constStr(t *T) string {
	if t.W == 0 {
		if t.C != 0 {
			return "true"
		}
		return "false"
	}
	if t.W%4 == 0 {
		return fmt.Sprintf("#x%0*x", int(t.W/4), t.C)
	}
	return fmt.Sprintf("#b%0*b", int(t.W), t.C)
}

// Script is an SMT-LIB2 rendering of a set of assertions.
type Script struct {
	Text   string           // declarations, definitions and asserts
	Syms   map[string]uint8 // declared symbols name -> width
	UFApps []UFApp          // UF applications with the names of their arg/result definitions
	Names  map[*T]string    // term -> name (or literal)
}

type UFApp struct {
	Fn   string
	Args []string
	Res  string
	ArgW []uint8
	ResW uint8
}

func smtName(s string) string {
	ok := true
	for _, c := range s {
		if !(c >= 'a' && c <= 'z' || c >= 'A' && c <= 'Z' || c >= '0' && c <= '9' || c == '_' || c == '.' || c == '$' || c == '-') {
			ok = false
			break
		}
	}
	if ok && s != "" {
		return s
	}
	return "|" + strings.ReplaceAll(strings.ReplaceAll(s, "|", "!"), "\\", "!") + "|"
}

// Render prints the assertions as an SMT-LIB2 fragment (no check-sat).
func Render(asserts []*T) *Script {
	sc := &Script{Syms: map[string]uint8{}, Names: map[*T]string{}}
	var decl, defs strings.Builder
	ufSigs := map[string]bool{}
	n := 0
	var walk func(t *T) string
	walk = func(t *T) string {
		if s, ok := sc.Names[t]; ok {
			return s
		}
		var s string
		switch t.Op {
		case OConst:
			s = constStr(t)
		case OSym:
			s = smtName(t.Name)
			if _, ok := sc.Syms[t.Name]; !ok {
				sc.Syms[t.Name] = t.W
				fmt.Fprintf(&decl, "(declare-const %s %s)\n", s, sortOf(t.W))
			}
		default:
			args := make([]string, len(t.A))
			for i, a := range t.A {
				args[i] = walk(a)
			}
			var body string
			switch t.Op {
			case OExtract:
				body = fmt.Sprintf("((_ extract %d %d) %s)", t.Hi, t.Lo, args[0])
			case OZExt:
				body = fmt.Sprintf("((_ zero_extend %d) %s)", t.W-t.A[0].W, args[0])
			case OSExt:
				body = fmt.Sprintf("((_ sign_extend %d) %s)", t.W-t.A[0].W, args[0])
			case OUF:
				fn := smtName(t.Name)
				if !ufSigs[t.Name] {
					ufSigs[t.Name] = true
					var as []string
					for _, a := range t.A {
						as = append(as, sortOf(a.W))
					}
					fmt.Fprintf(&decl, "(declare-fun %s (%s) %s)\n", fn, strings.Join(as, " "), sortOf(t.W))
				}
				body = "(" + fn + " " + strings.Join(args, " ") + ")"
			default:
				body = "(" + opName[t.Op] + " " + strings.Join(args, " ") + ")"
			}
			n++
			s = fmt.Sprintf("t!%d", n)
			fmt.Fprintf(&defs, "(define-fun %s () %s %s)\n", s, sortOf(t.W), body)
			if t.Op == OUF {
				app := UFApp{Fn: t.Name, Res: s, ResW: t.W}
				for i, a := range t.A {
					app.Args = append(app.Args, args[i])
					app.ArgW = append(app.ArgW, a.W)
				}
				sc.UFApps = append(sc.UFApps, app)
			}
		}
		sc.Names[t] = s
		return s
	}
	var as strings.Builder
	for _, a := range asserts {
		if a.IsTrue() {
			continue
		}
		fmt.Fprintf(&as, "(assert %s)\n", walk(a))
	}
	sc.Text = decl.String() + defs.String() + as.String()
	return sc
}

func (sc *Script) SymNames() []string {
	var r []string
	for k := range sc.Syms {
		r = append(r, k)
	}
	sort.Strings(r)
	return r
}

// String gives a compact human-readable rendering (bounded depth).
func (t *T) String() string { return t.str(6) }

func (t *T) str(d int) string {
	switch t.Op {
	case OConst:
		if t.W == 0 {
			return constStr(t)
		}
		return fmt.Sprintf("%d", t.C)
	case OSym:
		return t.Name
	}
	if d == 0 {
		return "…"
	}
	var as []string
	for _, a := range t.A {
		as = append(as, a.str(d-1))
	}
	switch t.Op {
	case OExtract:
		return fmt.Sprintf("%s[%d:%d]", as[0], t.Hi, t.Lo)
	case OZExt:
		return fmt.Sprintf("zx%d(%s)", t.W, as[0])
	case OSExt:
		return fmt.Sprintf("sx%d(%s)", t.W, as[0])
	case OUF:
		return t.Name + "(" + strings.Join(as, ",") + ")"
	}
	return "(" + opName[t.Op] + " " + strings.Join(as, " ") + ")"
}

// CollectSyms adds the free symbols ("s:"+name) and uninterpreted function names ("u:"+name) of t to out.
func CollectSyms(t *T, seen map[*T]struct{}, out map[string]struct{}) {
	if t.Op == OConst {
		return
	}
	if _, ok := seen[t]; ok {
		return
	}
	seen[t] = struct{}{}
	switch t.Op {
	case OSym:
		out["s:"+t.Name] = struct{}{}
		return
	case OUF:
		out["u:"+t.Name] = struct{}{}
	}
	for _, a := range t.A {
		CollectSyms(a, seen, out)
	}
}
