package term

import (
	"math/rand"
	"testing"
)

func TestRewrites(t *testing.T) {
	x := Sym("x", 16)
	hi := Extract(LShr(x, Const(16, 8)), 7, 0)
	lo := Extract(x, 7, 0)
	r := Or(ZExt(lo, 16), Shl(ZExt(hi, 16), Const(16, 8)))
	if !Equal(r, x) {
		t.Fatalf("be16 reassembly not folded: %s", r)
	}
	// 32-bit assembled from 4 bytes of a 32-bit symbol, big endian, accumulate style
	y := Sym("y", 32)
	acc := Const(64, 0)
	for i := 3; i >= 0; i-- {
		b := Extract(y, uint8(i*8+7), uint8(i*8))
		acc = Or(Shl(acc, Const(64, 8)), ZExt(b, 64))
	}
	if !Equal(acc, ZExt(y, 64)) {
		t.Fatalf("accumulate reassembly not folded: %s", acc)
	}
	// linear
	n := ZExt(Sym("n", 16), 64)
	m := ZExt(Sym("m", 16), 64)
	a := Add(n, Const(64, 10))
	b := Add(Add(n, Const(64, 4)), Add(m, Const(64, 14)))
	if !Ult(a, b).IsTrue() {
		t.Fatalf("linear ult not decided: %s", Ult(a, b))
	}
	if !Ult(b, a).IsFalse() {
		t.Fatalf("linear ult not decided (2)")
	}
	if !Eq(Add(Add(n, Const(64, 4)), m), Add(m, Add(Const(64, 4), n))).IsTrue() {
		t.Fatalf("linear eq")
	}
	z := Sym("z", 32)
	z.SetRange(0, 200)
	if !Equal(ZExt(Extract(ZExt(z, 64), 7, 0), 64), ZExt(z, 64)) {
		t.Fatalf("fit-truncation not identity: %s", ZExt(Extract(ZExt(z, 64), 7, 0), 64))
	}
}

func TestLinCmpSound(t *testing.T) {
	rnd := rand.New(rand.NewSource(7))
	syms := []*T{}
	for _, n := range []string{"x", "y", "z"} {
		s := Sym(n, 16)
		s.SetRange(0, 5000)
		syms = append(syms, s)
	}
	bases := []uint64{0, 5, 1700000000000000000}
	mults := []uint64{1, 3, 1000, 1000000}
	var gen func(d int) *T
	gen = func(d int) *T {
		switch rnd.Intn(5) {
		case 0:
			return Const(64, bases[rnd.Intn(len(bases))])
		case 1, 2:
			return Mul(ZExt(syms[rnd.Intn(3)], 64), Const(64, mults[rnd.Intn(len(mults))]))
		default:
			if d > 3 {
				return ZExt(syms[rnd.Intn(3)], 64)
			}
			return Add(gen(d+1), gen(d+1))
		}
	}
	for i := 0; i < 20000; i++ {
		a, b := gen(0), gen(0)
		var got, want *T
		switch rnd.Intn(5) {
		case 4:
			got, want = Sub(a, b), mk(OSub, 64, a, b)
		case 0:
			got, want = Ult(a, b), mk(OUlt, 0, a, b)
		case 1:
			got, want = Slt(a, b), mk(OSlt, 0, a, b)
		case 2:
			c, d := gen(0), gen(0)
			got, want = Slt(Sub(a, b), Sub(c, d)), mk(OSlt, 0, mk(OSub, 64, a, b), mk(OSub, 64, c, d))
		case 3:
			got, want = Slt(Const(64, 0), Sub(a, b)), mk(OSlt, 0, Const(64, 0), mk(OSub, 64, a, b))
		}
		for j := 0; j < 6; j++ {
			m := NewModel()
			for _, n := range []string{"x", "y", "z"} {
				v := uint64(rnd.Intn(5001))
				if rnd.Intn(4) == 0 {
					v = []uint64{0, 1, 4999, 5000}[rnd.Intn(4)]
				}
				m.Syms[n] = v
			}
			g := NewEvaluator(m).Eval(got)
			w := NewEvaluator(m).Eval(want)
			if g != w {
				t.Fatalf("mismatch: got %v (%s) want %v (%s) under %v", g, got, w, want, m.Syms)
			}
		}
	}
}

// narrow widths: signed comparisons of 8/16-bit sums and differences
func TestLinCmpNarrow(t *testing.T) {
	rnd := rand.New(rand.NewSource(11))
	for _, w := range []uint8{8, 16, 32} {
		x := Sym("x", w)
		y := Sym("y", w)
		his := []uint64{3, 100, Mask(w) >> 1, Mask(w)>>1 + 1, Mask(w)}
		for i := 0; i < 4000; i++ {
			hx, hy := his[rnd.Intn(len(his))], his[rnd.Intn(len(his))]
			x = Sym("x", w)
			y = Sym("y", w)
			x.SetRange(0, hx)
			y.SetRange(0, hy)
			ops := []*T{x, y, Add(x, Const(w, uint64(rnd.Intn(5)))), Add(y, Const(w, uint64(rnd.Intn(5)))), Sub(x, y), Sub(y, x), Const(w, uint64(rnd.Intn(6))), Const(w, Mask(w)-uint64(rnd.Intn(3)))}
			a, b := ops[rnd.Intn(len(ops))], ops[rnd.Intn(len(ops))]
			var got, want *T
			if rnd.Intn(2) == 0 {
				got, want = Slt(a, b), mk(OSlt, 0, a, b)
			} else {
				got, want = Ult(a, b), mk(OUlt, 0, a, b)
			}
			for j := 0; j < 8; j++ {
				m := NewModel()
				m.Syms["x"] = uint64(rnd.Int63n(int64(hx) + 1))
				m.Syms["y"] = uint64(rnd.Int63n(int64(hy) + 1))
				if rnd.Intn(3) == 0 {
					m.Syms["x"] = hx
				}
				if rnd.Intn(3) == 0 {
					m.Syms["y"] = hy
				}
				g := NewEvaluator(m).Eval(got)
				wv := NewEvaluator(m).Eval(want)
				if g != wv {
					t.Fatalf("w=%d mismatch: got %v (%s) want %v (%s) under %v (ranges %d %d)", w, g, got, wv, want, m.Syms, hx, hy)
				}
			}
		}
	}
}

// a wrapping addition must not be treated as an exact sum after its interval was refined by a learned fact
func TestRefineWrappingAdd(t *testing.T) {
	x := Sym("x", 32)
	zx := ZExt(x, 64)
	zx.SetRange(0, 70000)
	d := Add(zx, Const(64, ^uint64(0)-32753)) // zx - 32754 (wraps for small zx)
	Refine(d, 0, 5)                          // learned: d < 6
	Refine(d, 6, ^uint64(0))                 // on another occasion: d >= 6; must not touch zx through the wrapped add
	if lo, hi := zx.Range(); lo != 0 || hi != 70000 {
		t.Fatalf("operand interval changed through a wrapping add: [%d,%d]", lo, hi)
	}
}
