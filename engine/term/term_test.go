package term

import "testing"

func TestRewrites(t *testing.T) {
	x := Sym("x", 16)
	hi := Extract(LShr(x, Const(16, 8)), 7, 0)
	lo := Extract(x, 7, 0)
	r := Or(ZExt(lo, 16), Shl(ZExt(hi, 16), Const(16, 8)))
	if !Equal(r, x) {
		t.Fatalf("be16 reassembly not folded: %s", r)
	}
	// 32-bit assembled from 4 bytes of a 32-bit symbol, big endian, accumulate style
	y := Sym("y", 32)
	acc := Const(64, 0)
	for i := 3; i >= 0; i-- {
		b := Extract(y, uint8(i*8+7), uint8(i*8))
		acc = Or(Shl(acc, Const(64, 8)), ZExt(b, 64))
	}
	if !Equal(acc, ZExt(y, 64)) {
		t.Fatalf("accumulate reassembly not folded: %s", acc)
	}
	// linear
	n := ZExt(Sym("n", 16), 64)
	m := ZExt(Sym("m", 16), 64)
	a := Add(n, Const(64, 10))
	b := Add(Add(n, Const(64, 4)), Add(m, Const(64, 14)))
	if !Ult(a, b).IsTrue() {
		t.Fatalf("linear ult not decided: %s", Ult(a, b))
	}
	if !Ult(b, a).IsFalse() {
		t.Fatalf("linear ult not decided (2)")
	}
	if !Eq(Add(Add(n, Const(64, 4)), m), Add(m, Add(Const(64, 4), n))).IsTrue() {
		t.Fatalf("linear eq")
	}
	z := Sym("z", 32)
	z.SetRange(0, 200)
	if !Equal(ZExt(Extract(ZExt(z, 64), 7, 0), 64), ZExt(z, 64)) {
		t.Fatalf("fit-truncation not identity: %s", ZExt(Extract(ZExt(z, 64), 7, 0), 64))
	}
}
