// Package smt drives long-lived SMT solver processes (z3 -in, cvc5 --incremental).
package smt

import (
	"bufio"
	"fmt"
	"io"
	"os"
	"os/exec"
	"sync/atomic"
	"strconv"
	"strings"
	"sync"
	"time"

	"verif/engine/term"
)

type Result int

const (
	Unknown Result = iota
	Sat
	Unsat
)

func (r Result) String() string { return [...]string{"unknown", "sat", "unsat"}[r] }

type Kind string

const (
	Z3       Kind = "z3"
	Z3New    Kind = "z3-new"
	CVC5     Kind = "cvc5"
	CVC5Int  Kind = "cvc5-int"
)

type Stats struct {
	Sat, Unsat, Unknown int
	Time                time.Duration
	Errors              int
}

type Solver struct {
	Kind      Kind
	TimeoutMs int
	cmd       *exec.Cmd
	in        io.WriteCloser
	out       *bufio.Reader
	lines     chan string
	mu        sync.Mutex
	Stats     Stats
	LastErr   string
	Log       io.Writer
}

func New(kind Kind, timeoutMs int) *Solver {
	return &Solver{Kind: kind, TimeoutMs: timeoutMs}
}

func (s *Solver) start() error {
	var cmd *exec.Cmd
	switch s.Kind {
	case Z3:
		cmd = exec.Command("z3", "-in", fmt.Sprintf("-t:%d", s.TimeoutMs))
	case Z3New:
		cmd = exec.Command("z3-new", "-in", fmt.Sprintf("-t:%d", s.TimeoutMs))
	case CVC5:
		cmd = exec.Command("cvc5", "--incremental", "--produce-models", "--lang=smt2", fmt.Sprintf("--tlimit-per=%d", s.TimeoutMs))
	case CVC5Int:
		cmd = exec.Command("cvc5", "--incremental", "--produce-models", "--lang=smt2", "--solve-bv-as-int=sum", fmt.Sprintf("--tlimit-per=%d", s.TimeoutMs))
	}
	in, err := cmd.StdinPipe()
	if err != nil {
		return err
	}
	out, err := cmd.StdoutPipe()
	if err != nil {
		return err
	}
	cmd.Stderr = cmd.Stdout
	if err := cmd.Start(); err != nil {
		return err
	}
	s.cmd, s.in = cmd, in
	s.lines = make(chan string, 1024)
	rd := bufio.NewReaderSize(out, 1<<20)
	go func(ch chan string) {
		for {
			l, err := rd.ReadString('\n')
			if l != "" {
				ch <- strings.TrimRight(l, "\r\n")
			}
			if err != nil {
				close(ch)
				return
			}
		}
	}(s.lines)
	pre := "(set-option :print-success false)\n(set-option :produce-models true)\n"
	if s.Kind == CVC5 || s.Kind == CVC5Int {
		pre += "(set-logic ALL)\n"
	}
	io.WriteString(s.in, pre)
	return nil
}

func (s *Solver) Close() {
	s.mu.Lock()
	defer s.mu.Unlock()
	s.kill()
}

func (s *Solver) kill() {
	if s.cmd != nil {
		s.in.Close()
		s.cmd.Process.Kill()
		s.cmd.Wait()
		s.cmd = nil
	}
}

// roundTrip sends text followed by an echo marker and collects output lines until the marker.
func (s *Solver) roundTrip(text string) ([]string, error) {
	if s.cmd == nil {
		if err := s.start(); err != nil {
			return nil, err
		}
	}
	if s.Log != nil {
		io.WriteString(s.Log, text)
	}
	if _, err := io.WriteString(s.in, text+"(echo \"@@done\")\n"); err != nil {
		s.kill()
		return nil, err
	}
	var res []string
	deadline := time.After(time.Duration(s.TimeoutMs)*time.Millisecond + 4*time.Second)
	for {
		select {
		case l, ok := <-s.lines:
			if !ok {
				s.kill()
				return res, fmt.Errorf("solver exited")
			}
			if strings.Trim(l, "\"") == "@@done" {
				return res, nil
			}
			res = append(res, l)
		case <-deadline:
			s.kill()
			return res, fmt.Errorf("solver hard timeout")
		}
	}
}

// Check decides satisfiability of the conjunction of asserts. If sat and
// wantModel, the model (symbols and UF applications occurring in the query)
// is returned.
func (s *Solver) Check(asserts []*term.T, wantModel bool) (Result, *term.Model) {
	s.mu.Lock()
	defer s.mu.Unlock()
	sc := term.Render(asserts)
	if len(sc.Text) > 6<<20 {
		s.Stats.Unknown++
		s.LastErr = "query too large"
		return Unknown, nil
	}
	t0 := time.Now()
	defer func() { s.Stats.Time += time.Since(t0) }()
	open := "(push 1)\n"
	if s.Kind == Z3 || s.Kind == Z3New {
		// z3 switches to a much weaker incremental core after push; start every query from a clean state instead
		open = fmt.Sprintf("(reset)\n(set-option :print-success false)\n(set-option :produce-models true)\n(set-option :timeout %d)\n", s.TimeoutMs)
	}
	lines, err := s.roundTrip(open + sc.Text + "(check-sat)\n")
	if err != nil {
		s.Stats.Unknown++
		s.Stats.Errors++
		s.LastErr = err.Error()
		return Unknown, nil
	}
	res := Unknown
	bad := false
	for _, l := range lines {
		switch {
		case l == "sat":
			res = Sat
		case l == "unsat":
			res = Unsat
		case l == "unknown" || l == "timeout":
		case strings.Contains(l, "error"):
			bad = true
			s.LastErr = l
		}
	}
	if bad {
		res = Unknown
		s.Stats.Errors++
	}
	var model *term.Model
	if res == Sat && wantModel {
		model, err = s.getModel(sc)
		if err != nil {
			s.LastErr = err.Error()
			s.Stats.Errors++
			res = Unknown
		}
	}
	if s.cmd != nil && !(s.Kind == Z3 || s.Kind == Z3New) {
		if _, err := s.roundTrip("(pop 1)\n"); err != nil {
			s.Stats.Errors++
		}
	}
	switch res {
	case Sat:
		s.Stats.Sat++
	case Unsat:
		s.Stats.Unsat++
	default:
		s.Stats.Unknown++
	}
	return res, model
}

func (s *Solver) getModel(sc *term.Script) (*term.Model, error) {
	m := term.NewModel()
	var names []string
	for _, n := range sc.SymNames() {
		names = append(names, n)
	}
	var q []string
	for _, n := range names {
		q = append(q, smtNameOf(n))
	}
	for _, app := range sc.UFApps {
		q = append(q, app.Res)
		for _, a := range app.Args {
			if !isLiteral(a) {
				q = append(q, a)
			}
		}
	}
	if len(q) == 0 {
		return m, nil
	}
	vals := map[string]uint64{}
	// chunk to keep lines manageable
	for i := 0; i < len(q); i += 400 {
		j := i + 400
		if j > len(q) {
			j = len(q)
		}
		lines, err := s.roundTrip("(get-value (" + strings.Join(q[i:j], " ") + "))\n")
		if err != nil {
			return nil, err
		}
		txt := strings.Join(lines, " ")
		if strings.Contains(txt, "(error") {
			return nil, fmt.Errorf("get-value: %s", txt)
		}
		if err := parseValues(txt, vals); err != nil {
			return nil, err
		}
	}
	for _, n := range names {
		v, ok := vals[smtNameOf(n)]
		if !ok {
			return nil, fmt.Errorf("no value for %s", n)
		}
		m.Syms[n] = v
	}
	for _, app := range sc.UFApps {
		args := make([]uint64, len(app.Args))
		for i, a := range app.Args {
			if isLiteral(a) {
				args[i] = literalVal(a)
			} else {
				args[i] = vals[a]
			}
		}
		m.SetUF(app.Fn, args, vals[app.Res])
	}
	return m, nil
}

func smtNameOf(s string) string {
	for _, c := range s {
		if !(c >= 'a' && c <= 'z' || c >= 'A' && c <= 'Z' || c >= '0' && c <= '9' || c == '_' || c == '.' || c == '$' || c == '-') {
			return "|" + strings.ReplaceAll(strings.ReplaceAll(s, "|", "!"), "\\", "!") + "|"
		}
	}
	return s
}

func isLiteral(s string) bool {
	return strings.HasPrefix(s, "#") || s == "true" || s == "false"
}

func literalVal(s string) uint64 {
	switch {
	case s == "true":
		return 1
	case s == "false":
		return 0
	case strings.HasPrefix(s, "#x"):
		v, _ := strconv.ParseUint(s[2:], 16, 64)
		return v
	case strings.HasPrefix(s, "#b"):
		v, _ := strconv.ParseUint(s[2:], 2, 64)
		return v
	}
	return 0
}

// parseValues parses "((name value) (name value) ...)".
func parseValues(txt string, out map[string]uint64) error {
	toks := tokenize(txt)
	// expect ( ( name val ) ... )
	i := 0
	if len(toks) == 0 || toks[0] != "(" {
		return fmt.Errorf("bad get-value response: %.200s", txt)
	}
	i++
	for i < len(toks) && toks[i] == "(" {
		i++
		if i >= len(toks) {
			break
		}
		name := toks[i]
		i++
		// value: literal or (_ bvN W)
		var v uint64
		if toks[i] == "(" {
			// (_ bv123 32)
			if i+4 < len(toks) && toks[i+1] == "_" && strings.HasPrefix(toks[i+2], "bv") {
				x, err := strconv.ParseUint(toks[i+2][2:], 10, 64)
				if err != nil {
					return err
				}
				v = x
				i += 5
			} else {
				return fmt.Errorf("unexpected value form near %v", toks[i:min(i+6, len(toks))])
			}
		} else {
			v = literalVal(toks[i])
			i++
		}
		if i >= len(toks) || toks[i] != ")" {
			return fmt.Errorf("bad pair end")
		}
		i++
		out[name] = v
	}
	return nil
}

func tokenize(s string) []string {
	var toks []string
	i := 0
	for i < len(s) {
		c := s[i]
		switch {
		case c == ' ' || c == '\t' || c == '\n':
			i++
		case c == '(' || c == ')':
			toks = append(toks, string(c))
			i++
		case c == '|':
			j := i + 1
			for j < len(s) && s[j] != '|' {
				j++
			}
			toks = append(toks, s[i:min(j+1, len(s))])
			i = j + 1
		default:
			j := i
			for j < len(s) && s[j] != ' ' && s[j] != '(' && s[j] != ')' && s[j] != '\n' {
				j++
			}
			toks = append(toks, s[i:j])
			i = j
		}
	}
	return toks
}

// Portfolio queries a primary solver, falling back to others on unknown.
type Portfolio struct {
	Solvers []*Solver
}

func NewPortfolio(timeoutMs int, kinds ...Kind) *Portfolio {
	p := &Portfolio{}
	for i, k := range kinds {
		ms := timeoutMs
		if i == 0 && len(kinds) > 1 && ms > 1500 {
			ms = 1500 // first stage: fast solver with a short limit, the rest get the full limit
		}
		p.Solvers = append(p.Solvers, New(k, ms))
	}
	return p
}

var SlowLog = os.Getenv("VERIF_SLOWLOG")
var slowN int32

func (p *Portfolio) Check(asserts []*term.T, wantModel bool) (Result, *term.Model) {
	for _, s := range p.Solvers {
		t0 := time.Now()
		r, m := s.Check(asserts, wantModel)
		if SlowLog != "" && time.Since(t0) > 500*time.Millisecond {
			n := atomic.AddInt32(&slowN, 1)
			os.WriteFile(fmt.Sprintf("%s/slow-%03d-%s-%s-%dms.smt2", SlowLog, n, s.Kind, r, time.Since(t0).Milliseconds()), []byte(term.Render(asserts).Text+"(check-sat)\n"), 0o644)
		}
		if r == Sat && m != nil {
			// validate the model against the query (guards against solver or parser errors)
			ev := term.NewEvaluator(m.Clone())
			for _, a := range asserts {
				if ev.Eval(a) == 0 {
					s.Stats.Errors++
					s.LastErr = "model does not satisfy query"
					if SlowLog != "" {
						n := atomic.AddInt32(&slowN, 1)
						os.WriteFile(fmt.Sprintf("%s/badmodel-%03d-%s.smt2", SlowLog, n, s.Kind), []byte(term.Render(asserts).Text+"(check-sat)\n; failing: "+a.String()+"\n"+fmt.Sprintf("; model %v\n", m.Syms)), 0o644)
					}
					r = Unknown
					break
				}
			}
		}
		if r != Unknown {
			return r, m
		}
	}
	return Unknown, nil
}

func (p *Portfolio) Close() {
	for _, s := range p.Solvers {
		s.Close()
	}
}

func (p *Portfolio) Stats() (st Stats) {
	for _, s := range p.Solvers {
		st.Sat += s.Stats.Sat
		st.Unsat += s.Stats.Unsat
		st.Unknown += s.Stats.Unknown
		st.Time += s.Stats.Time
		st.Errors += s.Stats.Errors
	}
	return
}
