package smt

import (
	"testing"
	"verif/engine/term"
)

func TestBasic(t *testing.T) {
	for _, k := range []Kind{Z3, Z3New, CVC5, CVC5Int} {
		s := New(k, 10000)
		x := term.Sym("x", 64)
		y := term.Sym("y y", 8)
		a := term.UF("A_1", 8, x)
		as := []*term.T{term.Ult(x, term.Const(64, 100)), term.Eq(term.ZExt(y, 64), term.Add(x, term.Const(64, 3))), term.Eq(a, term.Const(8, 7)), term.Ugt(x, term.Const(64, 50))}
		r, m := s.Check(as, true)
		if r != Sat {
			t.Fatalf("%s: %v %s", k, r, s.LastErr)
		}
		ev := term.NewEvaluator(m)
		for _, c := range as {
			if ev.Eval(c) != 1 {
				t.Fatalf("%s: model does not satisfy %s: %+v", k, c, m)
			}
		}
		r, _ = s.Check(append(as, term.Eq(x, term.Const(64, 200))), false)
		if r != Unsat {
			t.Fatalf("%s: expected unsat got %v", k, r)
		}
		r, _ = s.Check(as, false)
		if r != Sat {
			t.Fatalf("%s: expected sat again got %v", k, r)
		}
		s.Close()
		t.Logf("%s ok %+v", k, s.Stats)
	}
}
