//verif:dir std/ndn/spec_2022
package spec_2022

import (
	enc "github.com/named-data/ndnd/std/encoding"
)

// C04: structured malformed packets.  An Interest / Data / LpPacket shell with a correct outer length around 0..elems
// elements, each with an arbitrary type byte, a length of 0..2 and arbitrary content bytes (so elements are
// missing, empty, duplicated, out of order or unknown), through ReadPacket - the entry point of every receive
// path - contiguously and split in two segments.
func VerifC04_PacketStructured() {
	outer := []byte{0x05, 0x06, 0x64}[verifChoice("outer", 3)]
	ne := verifChoice("nelems", verifParam("elems", 3)+1)
	var body []byte
	for i := 0; i < ne; i++ {
		l := verifChoice("elen", 3)
		body = append(body, verifByte("etype"), byte(l))
		body = append(body, verifBytesN("eval", l)...)
	}
	wire := append([]byte{outer, byte(len(body))}, body...)
	verifAllocBound("C04/packet/alloc-bound", 64*len(wire)+4096)
	if verifBool("segmented") {
		cut := verifChoice("cut", len(wire)+1)
		verifNoPanic("C04/packet/ReadPacket-wire-no-panic", func() { ReadPacket(enc.NewWireReader(enc.Wire{wire[:cut], wire[cut:]})) })
	} else {
		verifNoPanic("C04/packet/ReadPacket-no-panic", func() { ReadPacket(enc.NewBufferReader(wire)) })
	}
}
