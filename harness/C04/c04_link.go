//verif:dir fw/face
package face

import (
	"encoding/binary"

	defn "github.com/named-data/ndnd/fw/defn"
	"github.com/named-data/ndnd/fw/dispatch"
	"github.com/named-data/ndnd/fw/fw"
	enc "github.com/named-data/ndnd/std/encoding"
	spec "github.com/named-data/ndnd/std/ndn/spec_2022"
)

// C04 parts 5/6: link-layer receive path with arbitrary fragmentation fields, and PIT-token dispatch.

type verifC04Transport struct {
	transportBase
}

func (t *verifC04Transport) String() string                     { return "verif-transport" }
func (t *verifC04Transport) SetPersistency(p Persistency) bool { return true }
func (t *verifC04Transport) GetSendQueueSize() uint64           { return 0 }
func (t *verifC04Transport) sendFrame(f []byte)                 {}
func (t *verifC04Transport) runReceive()                        {}
func (t *verifC04Transport) Close()                             {}

type verifC04Thread struct{ n int }

func (t *verifC04Thread) String() string            { return "verif-fw" }
func (t *verifC04Thread) QueueData(p *defn.Pkt)     { t.n++ }
func (t *verifC04Thread) QueueInterest(p *defn.Pkt) { t.n++ }
func (t *verifC04Thread) GetNumPitEntries() int     { return 0 }
func (t *verifC04Thread) GetNumCsEntries() int      { return 0 }

func verifC04Link(nthreads int) (*NDNLPLinkService, []*verifC04Thread) {
	ths := make([]*verifC04Thread, nthreads)
	dl := make([]dispatch.FWThread, nthreads)
	for i := range ths {
		ths[i] = &verifC04Thread{}
		dl[i] = ths[i]
	}
	dispatch.InitializeFWThreads(dl)
	fw.Threads = make([]*fw.Thread, nthreads)
	tr := &verifC04Transport{}
	scope := defn.NonLocal
	if verifBool("local") {
		scope = defn.Local
	}
	tr.makeTransportBase(nil, nil, PersistencyPersistent, scope, defn.PointToPoint, 8800)
	return MakeNDNLPLinkService(tr, MakeNDNLPLinkServiceOptions()), ths
}

// a small well-formed Data packet /a with 1 content byte
func verifC04Data() []byte {
	return []byte{0x06, 0x08, 0x07, 0x03, 0x08, 0x01, 'a', 0x15, 0x01, verifByte("c")}
}

// fragmentation fields of the frame built last (absent FragIndex counts as 0, absent FragCount as 1)
var verifC04LastIdx, verifC04LastCnt uint64

func verifC04Frame(withFrag bool) []byte {
	lp := &spec.LpPacket{}
	verifC04LastIdx, verifC04LastCnt = 0, 1
	if verifBool("hasSeq") {
		v := verifU64("seq")
		lp.Sequence = &v
	}
	if verifBool("hasIdx") {
		v := verifU64("fragIndex")
		lp.FragIndex = &v
		verifC04LastIdx = v
	}
	if verifBool("hasCnt") {
		v := verifU64("fragCount")
		// bound: counts 5..8800 are outside the claim (the per-fragment loops of the reassembler
		// would be unrolled that many times); small counts and everything above the packet size are covered
		verifAssume(v <= uint64(verifParam("maxcount", 3)) || v > 8800)
		lp.FragCount = &v
		verifC04LastCnt = v
	}
	switch verifChoice("tok", verifParam("tokforms", 2)) {
	case 1:
		lp.PitToken = verifBytesN("token6", 6)
	case 2:
		lp.PitToken = verifBytesN("token", verifChoice("toklen", 9))
	}
	if withFrag {
		lp.Fragment = enc.Wire{verifC04Data()}
	}
	pkt := &spec.Packet{LpPacket: lp}
	e := spec.PacketEncoder{}
	e.Init(pkt)
	return e.Encode(pkt).Join()
}

// One or two frames with arbitrary fragmentation fields into a fresh link service.
func VerifC04_LinkFrames() {
	nth := 1 + verifChoice("threads", verifParam("maxthreads", 1))
	l, ths := verifC04Link(nth)
	nframes := 1 + verifChoice("nframes", verifParam("maxframes", 2))
	total := 0
	frames := make([][]byte, nframes)
	for i := range frames {
		frames[i] = verifC04Frame(true)
		total += len(frames[i])
	}
	verifAllocBound("C04/link/alloc-bound", 64*total+4096)
	verifStepBudget("C04/link/terminates", 2000000)
	for i := range frames {
		f := frames[i]
		verifNoPanic("C04/link/no-panic", func() { l.handleIncomingFrame(f) })
	}
	n := 0
	for _, t := range ths {
		n += t.n
	}
	verifAssert(n <= nframes*nth, "C04/link/no-spurious-delivery")
	if nframes == 1 {
		// one frame into a fresh link service: it can only be delivered if it is the only fragment of its packet; a frame
		// announcing itself as a piece of a larger packet (or with an impossible index) is never handed up as a packet
		verifAssert(n == 0 || (verifC04LastIdx == 0 && verifC04LastCnt == 1), "C04/link/lone-fragment-of-a-larger-packet-is-not-delivered")
	}
}

// A frame that fails to decode changes no state other than counters.
func VerifC04_LinkGarbageFrame() {
	l, ths := verifC04Link(1)
	in := verifBytesN("in", verifChoice("len", verifParam("garbage", 5)+1))
	before := len(l.partialMessageStore)
	verifStepBudget("C04/link/terminates", 2000000)
	verifAllocBound("C04/link/alloc-bound", 64*len(in)+4096)
	verifNoPanic("C04/link/no-panic", func() { l.handleIncomingFrame(in) })
	_, _, err := spec.ReadPacket(enc.NewBufferReader(in))
	if err != nil {
		verifAssert(len(l.partialMessageStore) == before && ths[0].n == 0 && len(l.sendQueue) == 0, "C04/link/undecodable-frame-changes-no-state")
	}
}

// PIT-token dispatch: any 6-byte token against 1..4 threads.
func VerifC04_DispatchByToken() {
	nth := 1 + verifChoice("threads", 4)
	l, ths := verifC04Link(nth)
	tok := verifBytesN("token", 6)
	name, _ := enc.NameFromStr("/a")
	pkt := &defn.Pkt{Name: name, Raw: verifC04Data(), L3: &spec.Packet{Data: &spec.Data{NameV: name}}, PitToken: tok}
	verifNoPanic("C04/dispatch/no-panic", func() { l.dispatchData(pkt) })
	thread := int(binary.BigEndian.Uint16(tok))
	n := 0
	for _, t := range ths {
		n += t.n
	}
	if thread < nth {
		verifAssert(ths[thread].n == 1 && n == 1, "C04/dispatch/token-selects-thread")
	} else {
		verifAssert(n == 0, "C04/dispatch/invalid-token-dropped")
	}
	verifNoPanic("C04/dispatch/GetFWThread-no-panic", func() { dispatch.GetFWThread(int(verifU64("id"))) })
}
