//verif:dir fw/face
package face

import (
	"io"
)

// C04: the stream framer on arbitrary bytes.  A scripted reader hands readTlvStream every byte string of
// 0..streambytes bytes (each byte symbolic, so type and length numbers take every form and every 64-bit value
// that fits), in one read or split into two reads (first read of 1, 3 or 9 bytes).

type verifC04Reader struct {
	data  []byte
	off   int
	first int
	calls int
}

func (r *verifC04Reader) Read(p []byte) (int, error) {
	if r.off >= len(r.data) {
		return 0, io.EOF
	}
	n := len(r.data) - r.off
	if r.calls == 0 && r.first < n {
		n = r.first
	}
	r.calls++
	if len(p) < n {
		n = len(p)
	}
	copy(p, r.data[r.off:r.off+n])
	r.off += n
	return n, nil
}

func verifC04Stream(label string, data []byte) {
	// first read ends inside the type, inside the length, after the header, or delivers everything
	rd := &verifC04Reader{data: data, first: []int{1, 3, 9, 64}[verifChoice("first", 4)]}
	total := 0
	nframes := 0
	verifNoPanic("C04/stream/"+label+"-no-panic", func() {
		readTlvStream(rd, func(f []byte) {
			total += len(f)
			nframes++
		}, nil)
	})
	verifAssert(total <= len(data), "C04/stream/frames-are-part-of-the-input")
	verifObserve("nframes", nframes)
	verifObserve("total", total)
}

// every byte string of 0..streambytes bytes
func VerifC04_StreamGarbage() {
	verifC04Stream("garbage", verifBytes("stream", verifParam("streambytes", 5)))
}

// one TLV header with an arbitrary type byte and an arbitrary 64-bit length in each of the four length forms,
// followed by 0..tlvtail arbitrary bytes
func VerifC04_StreamHeader() {
	data := []byte{verifByte("typ")}
	l := verifU64("len")
	switch verifChoice("form", 4) {
	case 0:
		verifAssume(l <= 0xfc)
		data = append(data, byte(l))
	case 1:
		verifAssume(l <= 0xffff)
		data = append(data, 0xfd, byte(l>>8), byte(l))
	case 2:
		verifAssume(l <= 0xffffffff)
		data = append(data, 0xfe, byte(l>>24), byte(l>>16), byte(l>>8), byte(l))
	case 3:
		data = append(data, 0xff, byte(l>>56), byte(l>>48), byte(l>>40), byte(l>>32), byte(l>>24), byte(l>>16), byte(l>>8), byte(l))
	}
	data = append(data, verifBytes("tail", verifParam("tlvtail", 1))...)
	verifC04Stream("header", data)
}

// The receive buffer filled to the brim by ONE read: 31 blocks of exactly the maximum packet size followed by a block
// whose length field takes every value around the maximum (so that its total size may exceed it by the header
// bytes), then a small block.  Whatever the framer decides about the odd block, it must not spin: a Read into a
// zero-length slice returns (0, nil) for ordinary readers, forever.
type verifC04FillReader struct {
	data []byte
	off  int
}

func (r *verifC04FillReader) Read(p []byte) (int, error) {
	if r.off >= len(r.data) {
		return 0, io.EOF
	}
	n := copy(p, r.data[r.off:]) // as much as fits, like a socket with a full kernel buffer
	r.off += n
	return n, nil
}

func VerifC04_StreamBufferFill() {
	const maxPkt = 8800
	nfill := 31
	stream := make([]byte, 0, 32*maxPkt+2*maxPkt)
	for i := 0; i < nfill; i++ {
		stream = append(stream, 0x06, 0xfd, byte((maxPkt-4)>>8), byte((maxPkt-4)&0xff))
		stream = append(stream, verifBytesUF("fill", maxPkt-4)...)
	}
	l := 8790 + verifChoice("oddlen", 21) // 8790..8810, concrete per path (the buffer arithmetic is what matters)
	stream = append(stream, 0x06, 0xfd, byte(l>>8), byte(l))
	stream = append(stream, verifBytesUF("odd", l)...)
	stream = append(stream, 0x06, 0x01, 0x00)
	rd := &verifC04FillReader{data: stream}
	nframes := 0
	var err error
	verifStepBudget("C04/stream/fill-terminates", 3000000)
	verifNoPanic("C04/stream/fill-no-panic", func() {
		err = readTlvStream(rd, func(f []byte) { nframes++ }, nil)
	})
	verifStepBudget("C04/stream/fill-terminates", 0)
	if l+4 <= maxPkt {
		// every block is within the maximum packet size: all of them are delivered
		verifAssert(err == nil && nframes == nfill+2, "C04/stream/fill-well-formed-blocks-are-delivered")
	}
	verifObserve("nframes", nframes)
}
