//verif:dir std/encoding
package encoding

// C04 part 1: every reader method, one call from an ARBITRARY valid reader state
// (buffer length symbolic up to 2^20, position anywhere in range) with ARBITRARY
// 64-bit arguments: no panic, and the position stays inside the buffer.

func verifC04BufReader() (*BufferReader, int) {
	buf := verifBytes("buf", 1<<20)
	pos := verifInt("pos", 0, 1<<20)
	verifAssume(pos <= len(buf))
	return &BufferReader{buf: buf, pos: pos}, len(buf)
}

func verifC04BufPost(r *BufferReader, n int, label string) {
	verifAssert(r.pos >= 0 && r.pos <= n, label)
}

func VerifC04_BufferReaderStep() {
	r, n := verifC04BufReader()
	arg := int(verifU64("arg"))
	switch verifChoice("method", 8) {
	case 0:
		verifNoPanic("C04/bufreader/ReadByte-no-panic", func() { r.ReadByte() })
	case 1:
		verifNoPanic("C04/bufreader/ReadBuf-no-panic", func() {
			b, err := r.ReadBuf(arg)
			if err == nil {
				verifAssert(len(b) == arg, "C04/bufreader/ReadBuf-length")
			}
		})
	case 2:
		verifNoPanic("C04/bufreader/ReadWire-no-panic", func() { r.ReadWire(arg) })
	case 3:
		verifNoPanic("C04/bufreader/Skip-no-panic", func() { r.Skip(arg) })
	case 4:
		verifNoPanic("C04/bufreader/Delegate-no-panic", func() { r.Delegate(arg) })
	case 5:
		arg2 := int(verifU64("arg2"))
		verifNoPanic("C04/bufreader/Range-no-panic", func() { r.Range(arg, arg2) })
	case 6:
		dst := make([]byte, verifInt("dstlen", 0, 64))
		verifNoPanic("C04/bufreader/Read-no-panic", func() { r.Read(dst) })
	case 7:
		verifNoPanic("C04/bufreader/UnreadByte-no-panic", func() { r.UnreadByte() })
	}
	verifC04BufPost(r, n, "C04/bufreader/position-in-range")
}

// WireReader over 1..3 segments of symbolic lengths, in any state the reader
// itself can reach: seg in [0,len(wire)], pos in [0,len(wire[seg])] (pos==0 past the end).
func verifC04WireReader() *WireReader {
	ns := 1 + verifChoice("nseg", verifParam("maxseg", 3))
	w := make(Wire, ns)
	for i := range w {
		w[i] = verifBytes("seg", 1<<16)
	}
	r := NewWireReader(w)
	seg := verifChoice("segidx", ns+1)
	r.seg = seg
	if seg < ns {
		pos := verifInt("pos", 0, 1<<20)
		verifAssume(pos <= len(w[seg]))
		r.pos = pos
	}
	return r
}

func VerifC04_WireReaderStep() {
	r := verifC04WireReader()
	arg := int(verifU64("arg"))
	switch verifChoice("method", 8) {
	case 0:
		verifNoPanic("C04/wirereader/ReadByte-no-panic", func() { r.ReadByte() })
	case 1:
		verifAllocBound("C04/wirereader/ReadBuf-alloc-bound", 64*r.Length()+4096)
		verifNoPanic("C04/wirereader/ReadBuf-no-panic", func() {
			b, err := r.ReadBuf(arg)
			if err == nil {
				verifAssert(len(b) == arg, "C04/wirereader/ReadBuf-length")
			}
		})
	case 2:
		verifNoPanic("C04/wirereader/ReadWire-no-panic", func() { r.ReadWire(arg) })
	case 3:
		verifNoPanic("C04/wirereader/Skip-no-panic", func() { r.Skip(arg) })
	case 4:
		verifNoPanic("C04/wirereader/Delegate-no-panic", func() { r.Delegate(arg) })
	case 5:
		arg2 := int(verifU64("arg2"))
		verifNoPanic("C04/wirereader/Range-no-panic", func() { r.Range(arg, arg2) })
	case 6:
		dst := make([]byte, verifInt("dstlen", 0, 64))
		verifNoPanic("C04/wirereader/Read-no-panic", func() { r.Read(dst) })
	case 7:
		verifNoPanic("C04/wirereader/Pos-no-panic", func() { r.Pos(); r.Length() })
	}
}

// C04 part 3: hand-written decoders on arbitrary input bytes.
func VerifC04_HandDecoders() {
	n := verifParam("handbytes", 8)
	in := verifBytesN("in", verifChoice("len", n+1))
	verifAllocBound("C04/hand/alloc-bound", 64*len(in)+4096)
	verifStepBudget("C04/hand/terminates", 200000)
	switch verifChoice("decoder", 4) {
	case 0:
		verifNoPanic("C04/hand/ReadComponent-no-panic", func() { ReadComponent(NewBufferReader(in)) })
	case 1:
		verifNoPanic("C04/hand/ReadName-no-panic", func() { ReadName(NewBufferReader(in)) })
	case 2:
		verifNoPanic("C04/hand/NameFromBytes-no-panic", func() { NameFromBytes(in) })
	case 3:
		cut := verifChoice("cut", len(in)+1)
		verifNoPanic("C04/hand/ReadName-wire-no-panic", func() { ReadName(NewWireReader(Wire{in[:cut], in[cut:]})) })
	}
}
