//verif:dir std/encoding
package encoding

import "io"

func VerifT00_A() {
	r := NewBufferReader([]byte{})
	_, err := r.ReadByte()
	verifObserve("errnil", err == nil)
	verifObserve("erreof", err == io.EOF)
	_, err2 := ReadTLNum(r)
	verifObserve("err2nil", err2 == nil)
	n, err3 := NameFromBytes([]byte{7, 0})
	verifObserve("n", len(n))
	verifObserve("err3nil", err3 == nil)
}
