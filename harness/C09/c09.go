//verif:dir fw/fw
package fw

// C09 uses the forwarding rig of ../C01/fwrig.go with local and non-local faces and names that may start with /localhost.
func VerifC09_FwHistory() { verifFwHistory("C09", true) }

// single Interest carrying a consumer-chosen next hop (NextHopFaceId)
func VerifC09_NextHopFaceId() { verifFwHistory("C09", true) }
