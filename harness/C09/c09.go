//verif:dir fw/fw
package fw

// C09 uses the forwarding rig of ../C01/fwrig.go with local and non-local faces and names that may start with /localhost.
func VerifC09_FwHistory() { verifFwHistory("C09", true) }

// single Interest carrying a consumer-chosen next hop (NextHopFaceId)
func VerifC09_NextHopFaceId() { verifFwHistory("C09", true) }

// longer histories as fixed shapes with three faces of symbolic scope; Interest names may be empty (the catch-all
// prefix) and any name may start with /localhost
func VerifC09_Script_IID() { verifFwScript("C09", true, []string{"IID"}) }
func VerifC09_Script_IDI() { verifFwScript("C09", true, []string{"IDI"}) }
