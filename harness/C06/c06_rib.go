//verif:dir fw/table
package table

import (
	enc "github.com/named-data/ndnd/std/encoding"
)

// C06: the FIB equals the flattening of the registered routes (oracle = Appendix A.3 of DESIGN.md,
// written from the statement), after every step of a symbolic register/unregister/cleanup history.

type verifRoute struct {
	prefix enc.Name
	face   uint64
	origin uint64
	cost   uint64
	flags  uint64
}

type verifRibModel struct{ routes []*verifRoute }

func (m *verifRibModel) add(p enc.Name, face, origin, cost, flags uint64) {
	for _, r := range m.routes {
		if r.face == face && r.origin == origin && r.prefix.Equal(p) {
			r.cost, r.flags = cost, flags
			return
		}
	}
	m.routes = append(m.routes, &verifRoute{p, face, origin, cost, flags})
}

func (m *verifRibModel) remove(p enc.Name, face, origin uint64) {
	for i, r := range m.routes {
		if r.face == face && r.origin == origin && r.prefix.Equal(p) {
			m.routes = append(m.routes[:i], m.routes[i+1:]...)
			return
		}
	}
}

func (m *verifRibModel) cleanup(face uint64) {
	var keep []*verifRoute
	for _, r := range m.routes {
		if r.face != face {
			keep = append(keep, r)
		}
	}
	m.routes = keep
}

func (m *verifRibModel) routesAt(p enc.Name) []*verifRoute {
	var out []*verifRoute
	for _, r := range m.routes {
		if r.prefix.Equal(p) {
			out = append(out, r)
		}
	}
	return out
}

func verifHasCapture(rs []*verifRoute) bool {
	for _, r := range rs {
		if r.flags&RouteFlagCapture != 0 {
			return true
		}
	}
	return false
}

// hops(p) for a prefix that has routes: own routes plus inherited child-inherit routes, minimum cost per face.
func (m *verifRibModel) hops(p enc.Name) []verifHop {
	own := m.routesAt(p)
	contributing := append([]*verifRoute{}, own...)
	if !verifHasCapture(own) {
		for l := len(p) - 1; l >= 0; l-- {
			anc := m.routesAt(p[:l])
			if len(anc) == 0 {
				continue
			}
			for _, r := range anc {
				if r.flags&RouteFlagChildInherit != 0 {
					contributing = append(contributing, r)
				}
			}
			if verifHasCapture(anc) {
				break
			}
		}
	}
	var out []verifHop
	for _, r := range contributing {
		found := false
		for i := range out {
			if out[i].face == r.face {
				found = true
				if r.cost < out[i].cost {
					out[i].cost = r.cost
				}
			}
		}
		if !found {
			out = append(out, verifHop{r.face, r.cost})
		}
	}
	return out
}

// expected lookup: hops of the longest prefix of q that has routes.
func (m *verifRibModel) lookup(q enc.Name) []verifHop {
	for l := len(q); l >= 0; l-- {
		if len(m.routesAt(q[:l])) > 0 {
			return m.hops(q[:l])
		}
	}
	return nil
}

func (m *verifRibModel) prefixes() []enc.Name {
	var out []enc.Name
	for _, r := range m.routes {
		dup := false
		for _, p := range out {
			if p.Equal(r.prefix) {
				dup = true
			}
		}
		if !dup {
			out = append(out, r.prefix)
		}
	}
	return out
}

func VerifC06_RibHistory() {
	k := verifParam("ops", 2)
	depth := verifParam("depth", 2)
	label := "C06/tree"
	if verifChoice("impl", 2) == 0 {
		newFibStrategyTableTree()
	} else {
		newFibStrategyTableHashTable(uint16(1 + verifChoice("m", 2)))
		label = "C06/hashtable"
		depth = verifParam("depth_ht", depth)
	}
	model := &verifRibModel{}
	origins := []uint64{RouteOriginApp, RouteOriginStatic}
	for step := 0; step < k; step++ {
		switch verifChoice("op", 3) {
		case 0:
			p := verifC05Name("p", depth)
			r := &Route{FaceID: verifRange("face", 1, 2), Origin: origins[verifChoice("origin", 2)], Cost: verifRange("cost", 0, 1000), Flags: verifRange("flags", 0, 3)}
			verifNoPanic(label+"/no-panic", func() { Rib.AddEncRoute(p, r) })
			model.add(p, r.FaceID, r.Origin, r.Cost, r.Flags)
		case 1:
			p := verifC05Name("p", depth)
			face, origin := verifRange("face", 1, 2), origins[verifChoice("origin", 2)]
			verifNoPanic(label+"/no-panic", func() { Rib.RemoveRouteEnc(p, face, origin) })
			model.remove(p, face, origin)
		case 2:
			face := verifRange("face", 1, 2)
			verifNoPanic(label+"/no-panic", func() { Rib.CleanUpFace(face) })
			model.cleanup(face)
		}
		// lookup for a symbolic name (after the last step; intermediate states are the last step of shorter histories)
		if step == k-1 {
			q := verifC05Name("q", depth)
			got := FibStrategyTable.FindNextHopsEnc(q)
			verifAssert(verifSameHops(got, model.lookup(q)), label+"/lookup-equals-flattening")
		}
		// the root entry holds only what was registered on the root
		root := FibStrategyTable.FindNextHopsEnc(enc.Name{})
		verifAssert(verifSameHops(root, model.lookup(enc.Name{})), label+"/root-untouched")
		if step == k-1 {
			fe := FibStrategyTable.GetAllFIBEntries()
			ps := model.prefixes()
			for _, p := range ps {
				found := false
				for _, e := range fe {
					if e.Name().Equal(p) {
						found = verifSameHops(e.GetNextHops(), model.hops(p))
					}
				}
				verifAssert(found, label+"/listing-has-every-routed-prefix")
			}
			verifAssert(len(fe) == len(ps), label+"/no-ghost-entry")
		}
	}
}


// Longer histories as fixed shapes (A register / re-register, U unregister, C face cleanup): three and four
// operations over nested prefixes with every parameter symbolic; checked after the last operation.
var verifC06Shapes = []string{"AAA", "AAU", "AAC", "AUA", "AAAU", "AAAC"}

// prefixes of the scripted histories: cuts of one chain of symbolic components (nested prefixes, gaps included);
// with "siblings" set, the last component may be replaced by a different symbolic byte
var verifC06Chain enc.Name

func verifC06ChainName(tag string, depth int) enc.Name {
	if verifC06Chain == nil {
		for i := 0; i < depth+1; i++ {
			verifC06Chain = append(verifC06Chain, enc.Component{Typ: enc.TypeGenericNameComponent, Val: verifBytesN("chain", 1)})
		}
	}
	d := verifChoice(tag+"len", depth+1)
	n := append(enc.Name{}, verifC06Chain[:d]...)
	if d > 0 && verifParam("siblings", 0) != 0 && verifBool(tag+"sib") {
		v := verifBytesN(tag+"sibv", 1)
		verifAssume(v[0] != n[d-1].Val[0])
		n[d-1] = enc.Component{Typ: enc.TypeGenericNameComponent, Val: v}
	}
	return n
}

func VerifC06_Scripted() {
	nshapes := verifParam("shapes", len(verifC06Shapes))
	verifC06Script(verifC06Shapes[verifChoice("shape", nshapes)])
}

// face removal after two registrations (in the quick tier under its own budget): the removed face's routes and
// everything descendants inherited from them must be gone
func VerifC06_ScriptedCleanup() {
	shapes := []string{"AAC", "AAAC"}
	verifC06Script(shapes[verifChoice("shape", verifParam("cleanupshapes", 1))])
}

// Three routes on the nested prefixes of depth 1, 2 and 3 of the chain (faces 1..3 in order of registration, costs 10, 20,
// 30, flags symbolic), then one of them - chosen by the explorer - is unregistered: inheritance must be re-flattened
// for every longer prefix whatever flags the removed route had (a capture-only route in the middle included).
func VerifC06_ScriptedNested() {
	shapes := []string{"abcu", "cbau", "bacu"}
	verifC06Script(shapes[verifChoice("shape", verifParam("nestedshapes", 2))])
}

func verifC06Script(shape string) {
	depth := verifParam("sdepth", 3)
	label := "C06/tree"
	if verifParam("bothfibs", 0) == 0 || verifChoice("impl", 2) == 0 {
		newFibStrategyTableTree()
	} else {
		newFibStrategyTableHashTable(uint16(1 + verifChoice("m", 2)))
		label = "C06/hashtable"
	}
	model := &verifRibModel{}
	origins := []uint64{RouteOriginApp, RouteOriginStatic}
	nop := 0
	pickFace := func() uint64 {
		// a fresh face per operation, or the face of the first operation
		nop++
		if nop > 1 && verifBool("sameface") {
			return 1
		}
		return uint64(nop)
	}
	pickOrigin := func() uint64 {
		if verifParam("origins", 1) > 1 {
			return origins[verifChoice("origin", 2)]
		}
		return origins[0]
	}
	var nested []enc.Name
	for _, op := range shape {
		switch op {
		case 'A':
			p := verifC06ChainName("p", depth)
			r := &Route{FaceID: pickFace(), Origin: pickOrigin(), Cost: verifRange("cost", 0, 1000), Flags: verifRange("flags", 0, 3)}
			verifNoPanic(label+"/no-panic", func() { Rib.AddEncRoute(p, r) })
			model.add(p, r.FaceID, r.Origin, r.Cost, r.Flags)
		case 'a', 'b', 'c':
			verifC06ChainName("init", depth) // materialise the chain
			p := append(enc.Name{}, verifC06Chain[:int(op-'a')+1]...)
			nop++
			r := &Route{FaceID: uint64(nop), Origin: RouteOriginApp, Cost: uint64(10 * nop), Flags: verifRange("flags", 0, 3)}
			verifNoPanic(label+"/no-panic", func() { Rib.AddEncRoute(p, r) })
			model.add(p, r.FaceID, r.Origin, r.Cost, r.Flags)
			nested = append(nested, p)
		case 'u':
			k := verifChoice("which", len(nested))
			verifNoPanic(label+"/no-panic", func() { Rib.RemoveRouteEnc(nested[k], uint64(k+1), RouteOriginApp) })
			model.remove(nested[k], uint64(k+1), RouteOriginApp)
		case 'U':
			p := verifC06ChainName("p", depth)
			face, origin := pickFace(), pickOrigin()
			verifNoPanic(label+"/no-panic", func() { Rib.RemoveRouteEnc(p, face, origin) })
			model.remove(p, face, origin)
		case 'C':
			face := pickFace()
			verifNoPanic(label+"/no-panic", func() { Rib.CleanUpFace(face) })
			model.cleanup(face)
		}
	}
	q := verifC06ChainName("q", depth+1)
	got := FibStrategyTable.FindNextHopsEnc(q)
	verifAssert(verifSameHops(got, model.lookup(q)), label+"/lookup-equals-flattening")
	root := FibStrategyTable.FindNextHopsEnc(enc.Name{})
	verifAssert(verifSameHops(root, model.lookup(enc.Name{})), label+"/root-untouched")
	fe := FibStrategyTable.GetAllFIBEntries()
	ps := model.prefixes()
	for _, p := range ps {
		found := false
		for _, e := range fe {
			if e.Name().Equal(p) {
				found = verifSameHops(e.GetNextHops(), model.hops(p))
			}
		}
		verifAssert(found, label+"/listing-has-every-routed-prefix")
	}
	verifAssert(len(fe) == len(ps), label+"/no-ghost-entry")
}
