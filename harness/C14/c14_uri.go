//verif:dir std/encoding
package encoding

// C14 (URI half): String()/NameFromStr round trip and parser robustness.

var verifC14Types = []TLNum{1, 2, 8, 9, 0x20, 0x32, 0x34, 0x36, 0x38, 0x3a, 255, 256, 65535}

var verifC14Nums = []uint64{0, 1, 9, 10, 255, 256, 65535, 65536, 1<<32 - 1, 1 << 32, 1<<64 - 1}

func verifC14IsNumeric(t TLNum) bool {
	return t == 0x32 || t == 0x34 || t == 0x36 || t == 0x38 || t == 0x3a
}

// URI round trip for names whose component types are in 1..65535 and whose
// numeric-convention components are in shortest (Nat) form.
func VerifC14_URIRoundTrip() {
	mc, ml := verifParam("urimaxcomp", 2), verifParam("urimaxlen", 2)
	nc := verifChoice("ncomp", mc+1)
	n := make(Name, nc)
	for i := range n {
		typ := verifC14Types[verifChoice("typ", len(verifC14Types))]
		if verifC14IsNumeric(typ) {
			// shortest form: the natural-number encoding of a value from a boundary list (decimal
			// formatting of a symbolic 64-bit number needs division by 10, which no installed
			// solver decides at 64 bits; stated as outside the claim)
			n[i] = Component{Typ: typ, Val: Nat(verifC14Nums[verifChoice("num", len(verifC14Nums))]).Bytes()}
		} else {
			l := verifChoice("vlen", ml+1)
			n[i] = Component{Typ: typ, Val: verifBytesN("val", l)}
		}
	}
	var s string
	verifNoPanic("C14/uri/string-no-panic", func() { s = n.String() })
	var n2 Name
	var err error
	verifNoPanic("C14/uri/parse-no-panic", func() { n2, err = NameFromStr(s) })
	verifAssert(err == nil, "C14/uri/parses-back")
	verifAssert(len(n2) == len(n), "C14/uri/same-component-count")
	for i := 0; i < len(n) && i < len(n2); i++ {
		verifAssert(n2[i].Typ == n[i].Typ, "C14/uri/same-type")
		verifAssertBytesEq(n2[i].Val, n[i].Val, "C14/uri/same-value")
	}
	verifObserve("s", s)
}

// Parsing never panics on any input string (bounded length, every byte symbolic).
func VerifC14_ParseNoPanic() {
	l := verifChoice("len", verifParam("strmax", 5)+1)
	s := string(verifBytesN("s", l))
	verifNoPanic("C14/parse/NameFromStr-no-panic", func() { NameFromStr(s) })
	verifNoPanic("C14/parse/ComponentFromStr-no-panic", func() { ComponentFromStr(s) })
	verifNoPanic("C14/parse/NamePatternFromStr-no-panic", func() { NamePatternFromStr(s) })
	verifNoPanic("C14/parse/ComponentPatternFromStr-no-panic", func() { ComponentPatternFromStr(s) })
}

// Longer values of one text component: the period-only values ("...", "....": written with three extra periods), values
// that mix periods with other bytes, percent signs and letters.  The first byte is symbolic (all 256 values), the
// others are enumerated from {'.', 'A', '%'} (a fully symbolic value of this length costs 4^n paths in the escaper).
func VerifC14_URILongValue() {
	typ := []TLNum{8, 2, 256}[verifChoice("typ", 3)]
	l := 3 + verifChoice("vlen", verifParam("urilonglen", 2))
	val := make([]byte, l)
	val[0] = verifByte("first")
	for i := 1; i < l; i++ {
		val[i] = []byte{'.', 'A', '%'}[verifChoice("rest", 3)]
	}
	n := Name{Component{Typ: typ, Val: val}}
	var s string
	verifNoPanic("C14/uri/string-no-panic", func() { s = n.String() })
	var n2 Name
	var err error
	verifNoPanic("C14/uri/parse-no-panic", func() { n2, err = NameFromStr(s) })
	verifAssert(err == nil, "C14/uri/parses-back")
	verifAssert(len(n2) == len(n), "C14/uri/same-component-count")
	for i := 0; i < len(n) && i < len(n2); i++ {
		verifAssert(n2[i].Typ == n[i].Typ, "C14/uri/same-type")
		verifAssertBytesEq(n2[i].Val, n[i].Val, "C14/uri/same-value")
	}
	verifObserve("s", s)
}
