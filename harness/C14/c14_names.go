//verif:dir std/encoding
package encoding

// C14: name order / equality / prefix / hash / URI consistency.

func verifC14Comp(maxLen int) Component {
	typ := TLNum(verifU64("typ"))
	n := verifChoice("vlen", maxLen+1)
	return Component{Typ: typ, Val: verifBytesN("val", n)}
}

func verifC14Name(maxComp, maxLen int) Name {
	nc := verifChoice("ncomp", maxComp+1)
	n := make(Name, nc)
	for i := range n {
		n[i] = verifC14Comp(maxLen)
	}
	return n
}

// reference comparator written from the statement: component-wise by type, then
// value length, then value bytes; a proper prefix sorts first.
func verifC14RefCompComp(a, b Component) int {
	if a.Typ != b.Typ {
		if a.Typ < b.Typ {
			return -1
		}
		return 1
	}
	if len(a.Val) != len(b.Val) {
		if len(a.Val) < len(b.Val) {
			return -1
		}
		return 1
	}
	for i := range a.Val {
		if a.Val[i] != b.Val[i] {
			if a.Val[i] < b.Val[i] {
				return -1
			}
			return 1
		}
	}
	return 0
}

func verifC14RefCompare(a, b Name) int {
	for i := 0; i < len(a) && i < len(b); i++ {
		if c := verifC14RefCompComp(a[i], b[i]); c != 0 {
			return c
		}
	}
	if len(a) < len(b) {
		return -1
	}
	if len(a) > len(b) {
		return 1
	}
	return 0
}

func verifSign(x int) int {
	if x < 0 {
		return -1
	}
	if x > 0 {
		return 1
	}
	return 0
}

func verifBytesSame(a, b []byte) bool {
	if len(a) != len(b) {
		return false
	}
	for i := range a {
		if a[i] != b[i] {
			return false
		}
	}
	return true
}

// Pair obligations: canonical order, antisymmetry, equality vs encoding, prefix, hash.
func VerifC14_Pair() {
	mc, ml := verifParam("maxcomp", 2), verifParam("maxlen", 2)
	a := verifC14Name(mc, ml)
	b := verifC14Name(mc, ml)
	var cab, cba int
	verifNoPanic("C14/pair/no-panic", func() { cab = a.Compare(b); cba = b.Compare(a) })
	ref := verifC14RefCompare(a, b)
	verifAssert(verifSign(cab) == ref, "C14/pair/compare-is-canonical-order")
	verifAssert(verifSign(cab) == -verifSign(cba), "C14/pair/antisymmetric")
	verifAssert(a.Compare(a) == 0, "C14/pair/reflexive")
	eq := a.Equal(b)
	verifAssert(eq == (cab == 0), "C14/pair/equal-iff-compare-zero")
	ab, bb := a.Bytes(), b.Bytes()
	verifAssert(eq == verifBytesSame(ab, bb), "C14/pair/equal-iff-same-encoding")
	// prefix relation agrees with component-wise equality
	pre := a.IsPrefix(b)
	refPre := len(a) <= len(b)
	if refPre {
		for i := range a {
			if verifC14RefCompComp(a[i], b[i]) != 0 {
				refPre = false
			}
		}
	}
	verifAssert(pre == refPre, "C14/pair/isprefix-is-componentwise-equality")
	// hashes
	// component hashes are computed in between: all hashers come from one pool, and whatever a previous user left
	// in a pooled hasher must not leak into the next hash
	ha := a.Hash()
	for _, c := range b {
		verifAssert(c.Hash() == c.Hash(), "C14/pair/component-hash-is-a-function")
	}
	hb := b.Hash()
	if eq {
		verifAssert(ha == hb, "C14/pair/equal-names-hash-equally")
	}
	if len(a) > 0 {
		_ = a[0].Hash()
	}
	ph := b.PrefixHash()
	verifAssert(len(ph) == len(b)+1, "C14/pair/prefixhash-length")
	for i := 0; i <= len(b); i++ {
		if i < len(b) {
			_ = b[i].Hash()
		}
		verifAssert(ph[i] == b[:i].Hash(), "C14/pair/prefixhash-i-is-hash-of-prefix")
	}
	if pre {
		verifAssert(ph[len(a)] == ha, "C14/pair/prefix-hash-matches-prefix-name")
	}
	verifObserve("cab", cab)
	verifObserve("eq", eq)
}

// Transitivity of the order on triples.
func VerifC14_Triple() {
	mc, ml := verifParam("maxcomp3", 2), verifParam("maxlen3", 1)
	a := verifC14Name(mc, ml)
	b := verifC14Name(mc, ml)
	c := verifC14Name(mc, ml)
	ab, bc, ac := verifSign(a.Compare(b)), verifSign(b.Compare(c)), verifSign(a.Compare(c))
	if ab <= 0 && bc <= 0 {
		verifAssert(ac <= 0, "C14/triple/transitive")
		if ab < 0 || bc < 0 {
			verifAssert(ac < 0, "C14/triple/transitive-strict")
		}
	}
	if ab == 0 && bc == 0 {
		verifAssert(ac == 0, "C14/triple/equality-transitive")
	}
}
