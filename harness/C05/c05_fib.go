//verif:dir fw/table
package table

import (
	enc "github.com/named-data/ndnd/std/encoding"
)

// C05: both FIB implementations against a reference association list, under a
// symbolic operation history, with a symbolic lookup name after every step.

type verifHop struct{ face, cost uint64 }

type verifFibEntry struct {
	name     enc.Name
	hops     []verifHop
	strategy enc.Name
}

type verifFibModel struct{ entries []*verifFibEntry }

func (m *verifFibModel) find(n enc.Name) *verifFibEntry {
	for _, e := range m.entries {
		if e.name.Equal(n) {
			return e
		}
	}
	return nil
}

func (m *verifFibModel) get(n enc.Name) *verifFibEntry {
	if e := m.find(n); e != nil {
		return e
	}
	e := &verifFibEntry{name: n}
	m.entries = append(m.entries, e)
	return e
}

func (m *verifFibModel) insert(n enc.Name, face, cost uint64) {
	e := m.get(n)
	for i := range e.hops {
		if e.hops[i].face == face {
			e.hops[i].cost = cost
			return
		}
	}
	e.hops = append(e.hops, verifHop{face, cost})
}

func (m *verifFibModel) remove(n enc.Name, face uint64) {
	if e := m.find(n); e != nil {
		for i := range e.hops {
			if e.hops[i].face == face {
				e.hops = append(e.hops[:i], e.hops[i+1:]...)
				return
			}
		}
	}
}

func (m *verifFibModel) clear(n enc.Name) {
	if e := m.find(n); e != nil {
		e.hops = nil
	}
}

func (m *verifFibModel) setStrategy(n, s enc.Name) { m.get(n).strategy = s }

func (m *verifFibModel) unsetStrategy(n enc.Name) {
	if e := m.find(n); e != nil {
		e.strategy = nil
	}
}

// longest prefix of q that has next hops / a strategy
func (m *verifFibModel) lookupHops(q enc.Name) []verifHop {
	for l := len(q); l >= 0; l-- {
		if e := m.find(q[:l]); e != nil && len(e.hops) > 0 {
			return e.hops
		}
	}
	return nil
}

func (m *verifFibModel) lookupStrategy(q enc.Name) enc.Name {
	for l := len(q); l >= 0; l-- {
		if e := m.find(q[:l]); e != nil && e.strategy != nil {
			return e.strategy
		}
	}
	return nil
}

func verifC05Name(tag string, maxDepth int) enc.Name {
	d := verifChoice(tag+"len", maxDepth+1)
	n := make(enc.Name, d)
	for i := range n {
		n[i] = enc.Component{Typ: enc.TypeGenericNameComponent, Val: verifBytesN(tag, 1)}
	}
	return n
}

func verifSameHops(got []*FibNextHopEntry, want []verifHop) bool {
	if len(got) != len(want) {
		return false
	}
	for _, w := range want {
		found := false
		for _, g := range got {
			if g.Nexthop == w.face && g.Cost == w.cost {
				found = true
			}
		}
		if !found {
			return false
		}
	}
	return true
}

func verifC05Listing(t FibStrategy, m *verifFibModel, label string) {
	// FIB listing = exactly the prefixes with next hops, with those values
	fe := t.GetAllFIBEntries()
	n := 0
	for _, e := range m.entries {
		if len(e.hops) == 0 {
			continue
		}
		n++
		found := false
		for _, g := range fe {
			if g.Name().Equal(e.name) {
				found = verifSameHops(g.GetNextHops(), e.hops)
			}
		}
		verifAssert(found, label+"/fib-listing-contains-entry")
	}
	verifAssert(len(fe) == n, label+"/fib-listing-size")
	se := t.GetAllForwardingStrategies()
	ns := 0
	for _, e := range m.entries {
		if e.strategy == nil {
			continue
		}
		ns++
		found := false
		for _, g := range se {
			if g.Name().Equal(e.name) && g.GetStrategy().Equal(e.strategy) {
				found = true
			}
		}
		verifAssert(found, label+"/strategy-listing-contains-entry")
	}
	verifAssert(len(se) == ns, label+"/strategy-listing-size")
}

func VerifC05_FibHistory() {
	k := verifParam("ops", 2)
	depth := verifParam("depth", 2)
	newFibStrategyTableTree()
	tree := FibStrategyTable
	mm := 1 + verifChoice("m", verifParam("maxm", 2))
	newFibStrategyTableHashTable(uint16(mm))
	ht := FibStrategyTable
	s0, _ := enc.NameFromStr("/localhost/nfd/strategy/best-route/v=1")
	s1, _ := enc.NameFromStr("/localhost/nfd/strategy/multicast/v=1")
	model := &verifFibModel{}
	model.setStrategy(enc.Name{}, s0)
	// each path checks one implementation against the model (so that a violation in one does not mask the other)
	tables := []FibStrategy{tree}
	labels := []string{"C05/tree"}
	if verifChoice("impl", 2) == 1 {
		tables = []FibStrategy{ht}
		labels = []string{"C05/hashtable"}
	}
	for step := 0; step < k; step++ {
		n := verifC05Name("p", depth)
		switch verifChoice("op", 5) {
		case 0:
			face, cost := verifRange("face", 1, 3), verifU64("cost")
			for _, t := range tables {
				t.InsertNextHopEnc(n, face, cost)
			}
			model.insert(n, face, cost)
		case 1:
			face := verifRange("face", 1, 3)
			for _, t := range tables {
				t.RemoveNextHopEnc(n, face)
			}
			model.remove(n, face)
		case 2:
			for _, t := range tables {
				t.ClearNextHopsEnc(n)
			}
			model.clear(n)
		case 3:
			s := s1
			if verifBool("strat") {
				s = s0
			}
			for _, t := range tables {
				t.SetStrategyEnc(n, s)
			}
			model.setStrategy(n, s)
		case 4:
			// unsetting the ROOT strategy is refused by the only caller (management, checked under C17);
			// the table API itself permits it and the repo's own tests rely on that, so it is not part of the history universe
			verifAssume(len(n) > 0)
			for _, t := range tables {
				t.UnSetStrategyEnc(n)
			}
			model.unsetStrategy(n)
		}
		q := verifC05Name("q", depth+1)
		wantHops := model.lookupHops(q)
		wantStrat := model.lookupStrategy(q)
		for i, t := range tables {
			var hops []*FibNextHopEntry
			var strat enc.Name
			tt := t
			verifNoPanic(labels[i]+"/no-panic", func() { hops = tt.FindNextHopsEnc(q); strat = tt.FindStrategyEnc(q) })
			verifAssert(verifSameHops(hops, wantHops), labels[i]+"/lookup-is-longest-prefix-match")
			verifAssert(strat != nil, labels[i]+"/strategy-never-nil")
			verifAssert(strat != nil && strat.Equal(wantStrat), labels[i]+"/strategy-is-longest-prefix-match")
		}
		if step == k-1 {
			for i, t := range tables {
				verifC05Listing(t, model, labels[i])
			}
		}
	}
}


// Longer histories as fixed shapes of operation kinds (I insert/update, R remove, C clear, S set strategy,
// U unset strategy): every prefix, face, cost and the final lookup name stay symbolic; lookups and listings are
// checked once, after the last operation.
var verifC05Shapes = []string{"IIR", "IIC", "IRI", "IIS", "ISU", "SIU", "IIRI", "IIRR", "SSU", "ISR", "SIC", "SIRI"}

func VerifC05_Scripted() {
	depth := verifParam("sdepth", 3)
	shape := verifC05Shapes[verifChoice("shape", len(verifC05Shapes))]
	s0, _ := enc.NameFromStr("/localhost/nfd/strategy/best-route/v=1")
	s1, _ := enc.NameFromStr("/localhost/nfd/strategy/multicast/v=1")
	var t FibStrategy
	label := "C05/tree"
	if verifChoice("impl", 2) == 1 {
		newFibStrategyTableHashTable(uint16(1 + verifChoice("m", verifParam("maxm", 2))))
		label = "C05/hashtable"
	} else {
		newFibStrategyTableTree()
	}
	t = FibStrategyTable
	model := &verifFibModel{}
	model.setStrategy(enc.Name{}, s0)
	for _, op := range shape {
		n := verifC05Name("p", depth)
		switch op {
		case 'I':
			face, cost := verifRange("face", 1, 3), verifU64("cost")
			t.InsertNextHopEnc(n, face, cost)
			model.insert(n, face, cost)
		case 'R':
			face := verifRange("face", 1, 3)
			t.RemoveNextHopEnc(n, face)
			model.remove(n, face)
		case 'C':
			t.ClearNextHopsEnc(n)
			model.clear(n)
		case 'S':
			t.SetStrategyEnc(n, s1)
			model.setStrategy(n, s1)
		case 'U':
			verifAssume(len(n) > 0)
			t.UnSetStrategyEnc(n)
			model.unsetStrategy(n)
		}
	}
	q := verifC05Name("q", depth+1)
	var hops []*FibNextHopEntry
	var strat enc.Name
	verifNoPanic(label+"/no-panic", func() { hops = t.FindNextHopsEnc(q); strat = t.FindStrategyEnc(q) })
	verifAssert(verifSameHops(hops, model.lookupHops(q)), label+"/lookup-is-longest-prefix-match")
	verifAssert(strat != nil && strat.Equal(model.lookupStrategy(q)), label+"/strategy-is-longest-prefix-match")
	verifC05Listing(t, model, label)
}
