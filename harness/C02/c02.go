//verif:dir fw/fw
package fw

// C02 uses the forwarding rig of ../C01/fwrig.go (Interest-side obligations).
func VerifC02_FwHistory() { verifFwHistory("C02", false) }

// single Interest carrying a consumer-chosen next hop (NextHopFaceId)
func VerifC02_NextHopFaceId() { verifFwHistory("C02", false) }

// longer Interest-side histories (fixed shapes, every parameter symbolic): retransmissions around the suppression
// interval, re-expression after expiry and after satisfaction
func VerifC02_Script_IAII() { verifFwScript("C02", false, []string{"IAII"}) }
func VerifC02_Script_IIAI() { verifFwScript("C02", false, []string{"IIAI"}) }
func VerifC02_Script_IDAI() { verifFwScript("C02", false, []string{"IDAI"}) }
func VerifC02_Script_IIII() { verifFwScript("C02", false, []string{"IIII"}) }

// three Interests over three faces (two downstreams and the upstream): loops through a second downstream
func VerifC02_Script_III() { verifFwScript("C02", false, []string{"III"}) }
