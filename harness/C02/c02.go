//verif:dir fw/fw
package fw

import (
	"time"

	"github.com/named-data/ndnd/fw/core"
	"github.com/named-data/ndnd/fw/defn"
	"github.com/named-data/ndnd/fw/dispatch"
	"github.com/named-data/ndnd/fw/table"
	enc "github.com/named-data/ndnd/std/encoding"
	spec "github.com/named-data/ndnd/std/ndn/spec_2022"
)

// C02 uses the forwarding rig of ../C01/fwrig.go (Interest-side obligations).
func VerifC02_FwHistory() { verifFwHistory("C02", false) }

// single Interest carrying a consumer-chosen next hop (NextHopFaceId)
func VerifC02_NextHopFaceId() { verifFwHistory("C02", false) }

// longer Interest-side histories (fixed shapes, every parameter symbolic): retransmissions around the suppression
// interval, re-expression after expiry and after satisfaction
func VerifC02_Script_IAII() { verifFwScript("C02", false, []string{"IAII"}) }
func VerifC02_Script_IIAI() { verifFwScript("C02", false, []string{"IIAI"}) }
func VerifC02_Script_IDAI() { verifFwScript("C02", false, []string{"IDAI"}) }
func VerifC02_Script_IIII() { verifFwScript("C02", false, []string{"IIII"}) }

// three Interests over three faces (two downstreams and the upstream): loops through a second downstream
func VerifC02_Script_III() { verifFwScript("C02", false, []string{"III"}) }

// Forwarding hints and the producer region: one Interest /n/x carrying 1..3 delegations chosen from a foreign
// delegation with a route (/h), a foreign one without a route (/q) and one inside the producer region (/r/x, when
// the region /r is configured).  The Interest is looked up under its own name if any delegation is inside the
// producer region (in any position) or if it has no hint, otherwise under the first delegation; it leaves on a next
// hop of that entry only.
func VerifC02_ForwardingHint() {
	cfg := core.DefaultConfig()
	cfg.Tables.ContentStore.Admit, cfg.Tables.ContentStore.Serve = false, false
	core.LoadConfig(cfg, "")
	table.Configure()
	Configure()
	table.CreateFIBTable("nametree")
	mk := func(s string) enc.Name { n, _ := enc.NameFromStr(s); return n }
	region := verifBool("region")
	if region {
		table.NetworkRegion.Add(mk("/r"))
	}
	if verifBool("multicast") {
		table.FibStrategyTable.SetStrategyEnc(enc.Name{}, mk("/localhost/nfd/strategy/multicast/v=1"))
	}
	th := NewThread(0)
	var log []verifSend
	for i := 1; i <= 5; i++ {
		f := &verifFace{id: uint64(i), scope: defn.NonLocal, link: defn.PointToPoint, log: &log}
		dispatch.AddFace(f.id, f)
	}
	// distinct next hops for the Interest name and for each delegation
	table.FibStrategyTable.InsertNextHopEnc(mk("/n"), 2, 1)
	table.FibStrategyTable.InsertNextHopEnc(mk("/h"), 3, 1)
	table.FibStrategyTable.InsertNextHopEnc(mk("/r"), 4, 1)
	table.FibStrategyTable.InsertNextHopEnc(mk("/h2"), 5, 1)
	delegs := []enc.Name{mk("/h"), mk("/q"), mk("/r/x"), mk("/h2")}
	nh := verifChoice("nhints", 4) // 0..3 delegations
	var hints []enc.Name
	for i := 0; i < nh; i++ {
		hints = append(hints, delegs[verifChoice("deleg", len(delegs))])
	}
	name := mk("/n/x")
	nonce := uint32(7)
	lt := 4 * time.Second
	in := uint64(1)
	i := &spec.Interest{NameV: name, NonceV: &nonce, InterestLifetimeV: &lt}
	if nh > 0 {
		i.ForwardingHintV = &spec.Links{Names: hints}
	}
	pkt := &defn.Pkt{Name: name, L3: &spec.Packet{Interest: i}, Raw: []byte{0x05, 0x00}, IncomingFaceID: &in}
	verifNoPanic("C02/hint/interest-no-panic", func() { th.processIncomingInterest(pkt) })
	// expected lookup name
	lookup := name
	if nh > 0 {
		reaching := false
		for _, h := range hints {
			if region && mk("/r").IsPrefix(h) {
				reaching = true
			}
		}
		if !reaching {
			lookup = hints[0]
		}
	}
	want := uint64(0) // 0: no route, nothing may be sent
	switch {
	case mk("/n").IsPrefix(lookup):
		want = 2
	case mk("/h").IsPrefix(lookup):
		want = 3
	case mk("/r").IsPrefix(lookup):
		want = 4
	case mk("/h2").IsPrefix(lookup):
		want = 5
	}
	for _, s := range log {
		verifAssert(!s.isData && s.face == want, "C02/hint/interest-leaves-only-on-a-next-hop-of-the-entry-for-its-name-or-hint")
	}
	if want != 0 {
		verifAssert(len(log) == 1, "C02/hint/first-interest-with-a-usable-next-hop-is-forwarded-once")
	} else {
		verifAssert(len(log) == 0, "C02/hint/interest-leaves-only-on-a-next-hop-of-the-entry-for-its-name-or-hint")
	}
	verifObserve("sends", len(log))
}

// Best-route and multicast over a FIB entry with three or four next hops of symbolic cost: the cheapest next hop may
// be unusable (it is the point-to-point arrival face, or its face no longer exists), so the choice has to fall on
// the cheapest USABLE one; multicast reaches every usable next hop exactly once.
func VerifC02_NextHopChoice() {
	cfg := core.DefaultConfig()
	cfg.Tables.ContentStore.Admit, cfg.Tables.ContentStore.Serve = false, false
	core.LoadConfig(cfg, "")
	table.Configure()
	Configure()
	table.CreateFIBTable("nametree")
	mk := func(s string) enc.Name { n, _ := enc.NameFromStr(s); return n }
	multicast := verifBool("multicast")
	if multicast {
		table.FibStrategyTable.SetStrategyEnc(enc.Name{}, mk("/localhost/nfd/strategy/multicast/v=1"))
	}
	th := NewThread(0)
	var log []verifSend
	nhops := 3 + verifChoice("extra", 2)
	missing := 0 // a next hop whose face does not exist (0: none)
	if verifBool("oneFaceGone") {
		missing = 2 + verifChoice("gone", nhops)
	}
	for i := 1; i <= nhops+1; i++ { // face 1 is the consumer side, faces 2.. are next hops
		if i == missing {
			continue
		}
		f := &verifFace{id: uint64(i), scope: defn.NonLocal, link: defn.PointToPoint, log: &log}
		dispatch.AddFace(f.id, f)
	}
	cost := make([]uint64, nhops+2)
	for i := 2; i <= nhops+1; i++ {
		cost[i] = verifRange("cost", 0, 3)
		table.FibStrategyTable.InsertNextHopEnc(mk("/n"), uint64(i), cost[i])
	}
	// the Interest arrives on the consumer face or on one of the next-hop faces
	in := uint64(1 + verifChoice("inface", nhops+1))
	verifAssume(int(in) != missing)
	name := mk("/n/x")
	nonce := uint32(7)
	lt := 4 * time.Second
	i := &spec.Interest{NameV: name, NonceV: &nonce, InterestLifetimeV: &lt}
	pkt := &defn.Pkt{Name: name, L3: &spec.Packet{Interest: i}, Raw: []byte{0x05, 0x00}, IncomingFaceID: &in}
	verifNoPanic("C02/choice/interest-no-panic", func() { th.processIncomingInterest(pkt) })
	usable := func(f int) bool { return f != missing && uint64(f) != in }
	best := uint64(1 << 62)
	nusable := 0
	for f := 2; f <= nhops+1; f++ {
		if usable(f) {
			nusable++
			if cost[f] < best {
				best = cost[f]
			}
		}
	}
	for _, s := range log {
		verifAssert(!s.isData && s.face >= 2 && usable(int(s.face)), "C02/choice/interest-leaves-only-on-usable-next-hops")
	}
	if multicast {
		verifAssert(len(log) == nusable, "C02/choice/multicast-uses-every-usable-next-hop-once")
		for f := 2; f <= nhops+1; f++ {
			n := 0
			for _, s := range log {
				if int(s.face) == f {
					n++
				}
			}
			if usable(f) {
				verifAssert(n == 1, "C02/choice/multicast-uses-every-usable-next-hop-once")
			}
		}
	} else if nusable > 0 {
		verifAssert(len(log) == 1, "C02/choice/best-route-forwards-on-exactly-one-next-hop")
		if len(log) == 1 && log[0].face >= 2 && int(log[0].face) <= nhops+1 {
			verifAssert(cost[log[0].face] == best, "C02/choice/best-route-uses-the-lowest-cost-usable-next-hop")
		}
	} else {
		verifAssert(len(log) == 0, "C02/choice/interest-leaves-only-on-usable-next-hops")
	}
	verifObserve("sends", len(log))
}
