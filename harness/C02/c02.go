//verif:dir fw/fw
package fw

// C02 uses the forwarding rig of ../C01/fwrig.go (Interest-side obligations).
func VerifC02_FwHistory() { verifFwHistory("C02", false) }

// single Interest carrying a consumer-chosen next hop (NextHopFaceId)
func VerifC02_NextHopFaceId() { verifFwHistory("C02", false) }
