//verif:dir fw/table
package table

import (
	enc "github.com/named-data/ndnd/std/encoding"
)

// helpers shared with C05 (copied for C07): both FIB implementations against a reference association list, under a
// symbolic operation history, with a symbolic lookup name after every step.

type verifHop struct{ face, cost uint64 }

type verifFibEntry struct {
	name     enc.Name
	hops     []verifHop
	strategy enc.Name
}

type verifFibModel struct{ entries []*verifFibEntry }

func (m *verifFibModel) find(n enc.Name) *verifFibEntry {
	for _, e := range m.entries {
		if e.name.Equal(n) {
			return e
		}
	}
	return nil
}

func (m *verifFibModel) get(n enc.Name) *verifFibEntry {
	if e := m.find(n); e != nil {
		return e
	}
	e := &verifFibEntry{name: n}
	m.entries = append(m.entries, e)
	return e
}

func (m *verifFibModel) insert(n enc.Name, face, cost uint64) {
	e := m.get(n)
	for i := range e.hops {
		if e.hops[i].face == face {
			e.hops[i].cost = cost
			return
		}
	}
	e.hops = append(e.hops, verifHop{face, cost})
}

func (m *verifFibModel) remove(n enc.Name, face uint64) {
	if e := m.find(n); e != nil {
		for i := range e.hops {
			if e.hops[i].face == face {
				e.hops = append(e.hops[:i], e.hops[i+1:]...)
				return
			}
		}
	}
}

func (m *verifFibModel) clear(n enc.Name) {
	if e := m.find(n); e != nil {
		e.hops = nil
	}
}

func (m *verifFibModel) setStrategy(n, s enc.Name) { m.get(n).strategy = s }

func (m *verifFibModel) unsetStrategy(n enc.Name) {
	if e := m.find(n); e != nil {
		e.strategy = nil
	}
}

// longest prefix of q that has next hops / a strategy
func (m *verifFibModel) lookupHops(q enc.Name) []verifHop {
	for l := len(q); l >= 0; l-- {
		if e := m.find(q[:l]); e != nil && len(e.hops) > 0 {
			return e.hops
		}
	}
	return nil
}

func (m *verifFibModel) lookupStrategy(q enc.Name) enc.Name {
	for l := len(q); l >= 0; l-- {
		if e := m.find(q[:l]); e != nil && e.strategy != nil {
			return e.strategy
		}
	}
	return nil
}

func verifC05Name(tag string, maxDepth int) enc.Name {
	d := verifChoice(tag+"len", maxDepth+1)
	n := make(enc.Name, d)
	for i := range n {
		n[i] = enc.Component{Typ: enc.TypeGenericNameComponent, Val: verifBytesN(tag, 1)}
	}
	return n
}

func verifSameHops(got []*FibNextHopEntry, want []verifHop) bool {
	if len(got) != len(want) {
		return false
	}
	for _, w := range want {
		found := false
		for _, g := range got {
			if g.Nexthop == w.face && g.Cost == w.cost {
				found = true
			}
		}
		if !found {
			return false
		}
	}
	return true
}

func verifC05Listing(t FibStrategy, m *verifFibModel, label string) {
	// FIB listing = exactly the prefixes with next hops, with those values
	fe := t.GetAllFIBEntries()
	n := 0
	for _, e := range m.entries {
		if len(e.hops) == 0 {
			continue
		}
		n++
		found := false
		for _, g := range fe {
			if g.Name().Equal(e.name) {
				found = verifSameHops(g.GetNextHops(), e.hops)
			}
		}
		verifAssert(found, label+"/fib-listing-contains-entry")
	}
	verifAssert(len(fe) == n, label+"/fib-listing-size")
	se := t.GetAllForwardingStrategies()
	ns := 0
	for _, e := range m.entries {
		if e.strategy == nil {
			continue
		}
		ns++
		found := false
		for _, g := range se {
			if g.Name().Equal(e.name) && g.GetStrategy().Equal(e.strategy) {
				found = true
			}
		}
		verifAssert(found, label+"/strategy-listing-contains-entry")
	}
	verifAssert(len(se) == ns, label+"/strategy-listing-size")
}

