//verif:dir fw/table
package table

import (
	"time"

	enc "github.com/named-data/ndnd/std/encoding"
	spec "github.com/named-data/ndnd/std/ndn/spec_2022"
)

// C07: Content Store - matching, freshness, returned bytes, capacity, LRU eviction.
// Oracle = Appendix A.4 of DESIGN.md (list of entries with stale time and last-touch counter).

type verifCsItem struct {
	name    enc.Name
	wire    []byte
	staleAt time.Time
	touch   int
}

type verifCsModel struct {
	items []*verifCsItem
	clock int
	cap   int
}

func (m *verifCsModel) find(n enc.Name) *verifCsItem {
	for _, it := range m.items {
		if it.name.Equal(n) {
			return it
		}
	}
	return nil
}

func (m *verifCsModel) insert(n enc.Name, wire []byte, staleAt time.Time) {
	m.clock++
	if it := m.find(n); it != nil {
		it.wire, it.staleAt, it.touch = wire, staleAt, m.clock
		return
	}
	m.items = append(m.items, &verifCsItem{n, wire, staleAt, m.clock})
	for len(m.items) > m.cap && len(m.items) > 0 {
		lo := 0
		for i, it := range m.items {
			if it.touch < m.items[lo].touch {
				lo = i
			}
		}
		m.items = append(m.items[:lo], m.items[lo+1:]...)
	}
}

// a well-formed Data packet: /c1/../ck with one content byte
func verifC07Data(n enc.Name, payload byte) []byte {
	return verifC07DataN(n, []byte{payload})
}

// ... with a content of any (short) length, so that a refresh can carry a shorter or longer packet
func verifC07DataN(n enc.Name, content []byte) []byte {
	nl := 0
	for _, c := range n {
		nl += 2 + len(c.Val)
	}
	w := []byte{0x06, byte(2 + nl + 2 + len(content)), 0x07, byte(nl)}
	for _, c := range n {
		w = append(w, 0x08, byte(len(c.Val)))
		w = append(w, c.Val...)
	}
	w = append(w, 0x15, byte(len(content)))
	return append(w, content...)
}

func VerifC07_CsHistory() {
	k := verifParam("ops", 3)
	depth := verifParam("depth", 2)
	csReplacementPolicy = "lru"
	csAdmit, csServe = true, true
	model := &verifCsModel{cap: verifChoice("capacity", verifParam("maxcap", 2)+1)}
	csCapacity = model.cap
	cs := NewPitCS(func(PitEntry) {})
	var used []enc.Name
	for step := 0; step < k; step++ {
		switch verifChoice("op", 4) {
		case 3: // time passes
			verifAdvance(int64(verifRange("adv", 0, 40)) * int64(time.Millisecond))
		case 0: // insert / refresh
			n := verifC05Name("n", depth)
			if len(n) == 0 {
				n = verifC05Name("n1", 1)
				verifAssume(len(n) == 1)
			}
			wire := verifC07Data(n, verifByte("payload"))
			fresh := time.Duration(verifRange("fresh", 0, 40)) * time.Millisecond
			d := &spec.Data{NameV: n, MetaInfo: &spec.MetaInfo{FreshnessPeriod: &fresh}}
			existed := model.find(n) != nil
			used = append(used, n)
			verifNoPanic("C07/insert-no-panic", func() { cs.InsertData(d, wire) })
			model.insert(n, wire, time.Now().Add(fresh))
			if !existed {
				verifAssert(cs.CsSize() <= model.cap, "C07/insert-of-new-name-leaves-at-most-capacity")
			}
			verifAssert(cs.CsSize() == len(model.items), "C07/size-equals-model")
		case 1: // lookup
			q := verifC05Name("q", depth)
			cbp, mbf := verifBool("cbp"), verifBool("mbf")
			i := &spec.Interest{NameV: q, CanBePrefixV: cbp, MustBeFreshV: mbf}
			var e CsEntry
			verifNoPanic("C07/lookup-no-panic", func() { e = cs.FindMatchingDataFromCS(i) })
			now := time.Now()
			if e != nil {
				d, wire, err := e.Copy()
				verifAssert(err == nil && d != nil, "C07/returned-entry-decodes")
				if err == nil && d != nil {
					nm := d.NameV
					verifAssert(q.Equal(nm) || (cbp && q.IsPrefix(nm)), "C07/returned-data-matches-interest-name")
					it := model.find(nm)
					verifAssert(it != nil, "C07/returned-data-is-cached-and-unevicted")
					if it != nil {
						verifAssertBytesEq(wire, it.wire, "C07/returned-bytes-are-the-most-recently-inserted")
						if mbf {
							verifAssert(now.Before(it.staleAt), "C07/mustbefresh-only-while-fresh")
						}
						if !cbp {
							model.clock++
							it.touch = model.clock // an exact-name hit refreshes recency
						}
					}
				}
			}
			if it := model.find(q); it != nil && !cbp && (!mbf || now.Before(it.staleAt)) {
				verifAssert(e != nil, "C07/cached-unevicted-fresh-data-found-by-exact-lookup")
			}
		case 2: // capacity change through management
			nc := verifChoice("newcap", verifParam("maxcap", 2)+1)
			SetCsCapacity(nc)
			model.cap = nc
		}
	}
	// final sweep: exactly the entries the reference model kept are still served (eviction took the least recently used)
	for _, n := range used {
		e := cs.FindMatchingDataFromCS(&spec.Interest{NameV: n})
		verifAssert((e != nil) == (model.find(n) != nil), "C07/cached-set-equals-model-after-evictions")
	}
}

// Scripted shape: three insertions over names in prefix relation (/a, /a/b, /a/b/c) and siblings (/a/c, /d),
// capacity 1..2, an optional exact-name hit in between, then an exact lookup of every name ever inserted and the
// reported size.  This reaches what the 4-operation history over one-component names cannot: eviction of a
// longer name while a shorter one on the same branch stays cached (and the other way round).
func VerifC07_Scripted() {
	universe := []string{"/a", "/a/b", "/a/b/c", "/a/c", "/d"}
	csReplacementPolicy = "lru"
	csAdmit, csServe = true, true
	model := &verifCsModel{cap: 1 + verifChoice("capacity", 2)}
	csCapacity = model.cap
	cs := NewPitCS(func(PitEntry) {})
	var used []enc.Name
	nins := verifParam("inserts", 3)
	for k := 0; k < nins; k++ {
		n, _ := enc.NameFromStr(universe[verifChoice("name", len(universe))])
		// contents of different lengths: a re-insertion refreshes with a shorter or a longer packet
		content := [][]byte{{1, 1, 1}, {2}, {3, 3}, {4}, {5, 5, 5, 5}}[k%5]
		wire := verifC07DataN(n, content)
		fresh := time.Second
		d := &spec.Data{NameV: n, MetaInfo: &spec.MetaInfo{FreshnessPeriod: &fresh}}
		used = append(used, n)
		verifNoPanic("C07/insert-no-panic", func() { cs.InsertData(d, wire) })
		model.insert(n, wire, time.Now().Add(fresh))
		verifAssert(cs.CsSize() == len(model.items), "C07/size-equals-model")
		if k == 0 && verifBool("hit") {
			// an exact-name hit on the first entry makes it the most recently used
			e := cs.FindMatchingDataFromCS(&spec.Interest{NameV: n})
			verifAssert(e != nil, "C07/cached-unevicted-fresh-data-found-by-exact-lookup")
			model.clock++
			model.find(n).touch = model.clock
		}
	}
	for _, n := range used {
		var e CsEntry
		verifNoPanic("C07/lookup-no-panic", func() { e = cs.FindMatchingDataFromCS(&spec.Interest{NameV: n, MustBeFreshV: true}) })
		it := model.find(n)
		verifAssert((e != nil) == (it != nil), "C07/cached-set-equals-model-after-evictions")
		if e != nil && it != nil {
			_, wire, err := e.Copy()
			verifAssert(err == nil, "C07/returned-entry-decodes")
			verifAssertBytesEq(wire, it.wire, "C07/returned-bytes-are-the-most-recently-inserted")
			model.clock++
			it.touch = model.clock
		}
	}
	// a prefix lookup from the top of the branch finds something iff anything below /a is cached
	top, _ := enc.NameFromStr("/a")
	e := cs.FindMatchingDataFromCS(&spec.Interest{NameV: top, CanBePrefixV: true})
	any := false
	for _, it := range model.items {
		if top.IsPrefix(it.name) {
			any = true
		}
	}
	verifAssert((e != nil) == any, "C07/prefix-lookup-finds-cached-data-under-the-prefix")
	verifAssert(cs.CsSize() == len(model.items), "C07/size-equals-model")
}
