//verif:dir dv/table
package table

import (
	"github.com/named-data/ndnd/dv/config"
	"github.com/named-data/ndnd/dv/tlv"
	enc "github.com/named-data/ndnd/std/encoding"
	spec "github.com/named-data/ndnd/std/ndn/spec_2022"
	ndn_sync "github.com/named-data/ndnd/std/sync"
)

// C19 (prefix log): a peer that applies a router's published operation log in order - from the
// initial snapshot, or from a later snapshot - reconstructs exactly the announced prefix set.

func verifC19Cfg(router string) *config.Config {
	cfg := config.DefaultConfig()
	cfg.Network, cfg.Router = "/net", router
	if err := cfg.Parse(); err != nil {
		panic(err)
	}
	return cfg
}

func verifC19Fetch(pt *PrefixTable, name enc.Name) *tlv.PrefixOpList {
	wire := pt.repo[name.Hash()]
	if wire == nil {
		return nil
	}
	data, _, err := spec.Spec{}.ReadData(enc.NewBufferReader(wire))
	if err != nil {
		return nil
	}
	ops, err := tlv.ParsePrefixOpList(enc.NewWireReader(data.Content()), true)
	if err != nil {
		return nil
	}
	return ops
}

func VerifC19_PrefixLog() {
	cfg := verifC19Cfg("/r1")
	var cmds []verifCmd
	eng := verifRecEngine{cmds: &cmds}
	svs := ndn_sync.NewSvSync(eng, cfg.PrefixTableSyncPrefix(), func(ndn_sync.SvSyncUpdate) {})
	start := verifRange("startseq", 1, 1<<40)
	svs.SetSeqNo(cfg.RouterName(), start)
	pt := NewPrefixTable(cfg, eng, svs)
	pool := []enc.Name{}
	for _, s := range []string{"/x", "/y", "/x/z"} {
		n, _ := enc.NameFromStr(s)
		pool = append(pool, n)
	}
	announced := map[int]bool{}
	nops := verifParam("logops", 3)
	for i := 0; i < nops; i++ {
		k := verifChoice("name", len(pool))
		if verifBool("announce") {
			pt.Announce(pool[k])
			announced[k] = true
		} else {
			pt.Withdraw(pool[k])
			delete(announced, k)
		}
	}
	// a peer: starts from the snapshot the router points to, then applies every later op in order
	peerCfg := verifC19Cfg("/r2")
	peerSvs := ndn_sync.NewSvSync(eng, peerCfg.PrefixTableSyncPrefix(), func(ndn_sync.SvSyncUpdate) {})
	peer := NewPrefixTable(peerCfg, eng, peerSvs)
	snapPfx := append(cfg.PrefixTableDataPrefix(), enc.NewStringComponent(enc.TypeKeywordNameComponent, "SNAP"))
	fromSnap := verifBool("fromSnapshot")
	first := start + 1
	if fromSnap {
		snap := verifC19Fetch(pt, snapPfx)
		verifAssert(snap != nil, "C19/log/snapshot-is-served")
		if snap != nil {
			peer.Apply(snap)
		}
		first = pt.snapshotAt + 1
	}
	for seq := first; seq <= pt.me.Latest; seq++ {
		name := append(cfg.PrefixTableDataPrefix(), enc.NewSequenceNumComponent(seq))
		ops := verifC19Fetch(pt, name)
		verifAssert(ops != nil, "C19/log/every-op-is-served-under-its-sequence-number")
		if ops != nil {
			peer.Apply(ops)
		}
	}
	got := peer.GetRouter(cfg.RouterName()).Prefixes
	n := 0
	for k := range pool {
		if announced[k] {
			n++
			e := got[pool[k].Hash()]
			verifAssert(e != nil && e.Name.Equal(pool[k]), "C19/log/reconstructed-set-contains-every-announced-prefix")
		}
	}
	verifAssert(len(got) == n, "C19/log/reconstructed-set-has-nothing-else")
}
