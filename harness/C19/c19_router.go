//verif:dir dv/dv
package dv

import (
	"time"

	"github.com/named-data/ndnd/dv/config"
	"github.com/named-data/ndnd/dv/table"
	"github.com/named-data/ndnd/dv/tlv"
	enc "github.com/named-data/ndnd/std/encoding"
	"github.com/named-data/ndnd/std/ndn"
	mgmt "github.com/named-data/ndnd/std/ndn/mgmt_2022"
	spec "github.com/named-data/ndnd/std/ndn/spec_2022"
)

// C19 (the whole chain): the real Router processes a history of neighbour advertisements and neighbour deaths
// (ribUpdate, checkDeadNeighbors), synchronises its FIB (fibUpdate), and the real management thread turns that
// into rib register/unregister commands.  The routes thereby held in the forwarder are compared, after every
// event and not just from a clean start, with what the latest advertisements of the live neighbours prescribe.

type verifMirrorCmd struct {
	cmd        string
	name       enc.Name
	face, cost uint64
}

type verifMirrorEngine struct{ cmds *[]verifMirrorCmd }

func (e verifMirrorEngine) EngineTrait() ndn.Engine                                   { return e }
func (verifMirrorEngine) Spec() ndn.Spec                                              { return spec.Spec{} }
func (verifMirrorEngine) Timer() ndn.Timer                                            { return verifTimerF{} }
func (verifMirrorEngine) Start() error                                                { return nil }
func (verifMirrorEngine) Stop() error                                                 { return nil }
func (verifMirrorEngine) IsRunning() bool                                             { return true }
func (verifMirrorEngine) AttachHandler(enc.Name, ndn.InterestHandler) error           { return nil }
func (verifMirrorEngine) DetachHandler(enc.Name) error                                { return nil }
func (verifMirrorEngine) Express(*ndn.EncodedInterest, ndn.ExpressCallbackFunc) error { return nil }
func (verifMirrorEngine) RegisterRoute(enc.Name) error                                { return nil }
func (verifMirrorEngine) UnregisterRoute(enc.Name) error                              { return nil }
func (e verifMirrorEngine) ExecMgmtCmd(module string, cmd string, args any) error {
	a := args.(*mgmt.ControlArgs)
	c := verifMirrorCmd{cmd: cmd, name: a.Name}
	if a.FaceId != nil {
		c.face = *a.FaceId
	}
	if a.Cost != nil {
		c.cost = *a.Cost
	}
	if module == "rib" {
		*e.cmds = append(*e.cmds, c)
	}
	return nil
}

type verifMirrorRoute struct {
	name       enc.Name
	face, cost uint64
}

func verifMirrorApply(ref []verifMirrorRoute, cmds []verifMirrorCmd) []verifMirrorRoute {
	for _, c := range cmds {
		idx := -1
		for i, r := range ref {
			if r.face == c.face && r.name.Equal(c.name) {
				idx = i
			}
		}
		if c.cmd == "register" {
			if idx >= 0 {
				ref[idx].cost = c.cost
			} else {
				ref = append(ref, verifMirrorRoute{c.name, c.face, c.cost})
			}
		} else if c.cmd == "unregister" && idx >= 0 {
			ref = append(ref[:idx], ref[idx+1:]...)
		}
	}
	return ref
}

func verifMirrorRoutesOf(ref []verifMirrorRoute, n enc.Name) []verifMirrorRoute {
	var out []verifMirrorRoute
	for _, r := range ref {
		if r.name.Equal(n) {
			out = append(out, r)
		}
	}
	return out
}

func VerifC19_RouterMirror() {
	cfg := config.DefaultConfig()
	cfg.Network, cfg.Router = "/net", "/r0"
	var cmds []verifMirrorCmd
	dv, err := NewRouter(cfg, verifMirrorEngine{cmds: &cmds})
	verifAssert(err == nil, "C19/router/setup")
	nn := verifParam("mneighbours", 3)
	nev := verifParam("mevents", 3)
	mk := func(s string) enc.Name { n, _ := enc.NameFromStr(s); return n }
	var nbrs []enc.Name
	faces := []uint64{}
	for i := 0; i < nn; i++ {
		nbrs = append(nbrs, mk("/n"+string(rune('1'+i))))
		faces = append(faces, uint64(11+i))
	}
	dests := []enc.Name{mk("/d1"), mk("/d2")}
	p1, p2 := mk("/p1"), mk("/p2")
	// d1 announces /p1 and /p2, d2 announces /p1 as well
	dv.pfx.GetRouter(dests[0]).Prefixes[p1.Hash()] = &table.PrefixEntry{Name: p1}
	dv.pfx.GetRouter(dests[0]).Prefixes[p2.Hash()] = &table.PrefixEntry{Name: p2}
	dv.pfx.GetRouter(dests[1]).Prefixes[p1.Hash()] = &table.PrefixEntry{Name: p1}
	routerPrefix := func(d enc.Name) enc.Name {
		return append(append(enc.Name{}, d...), enc.NewStringComponent(enc.TypeKeywordNameComponent, "DV"))
	}
	alive := make([]bool, nn)
	// offer[n][d]: cost at which live neighbour n currently offers destination d (16: not offered)
	offer := make([][]uint64, nn)
	for n := range offer {
		offer[n] = []uint64{16, 16}
	}
	var ref []verifMirrorRoute
	via := mk("/x")
	verifQueueGoroutines(true)
	started := false
	for k := 0; k < nev; k++ {
		n := k // the first two events are fixed: advertisements of n1 and n2
		if k > 1 {
			n = verifChoice("neighbour", nn)
		}
		if k > 1 && alive[n] && verifBool("dies") {
			// n has not been heard of for longer than the dead interval
			table.VerifXC19Age(dv.neighbors.Get(nbrs[n]), cfg.RouterDeadInterval()+time.Second)
			alive[n] = false
			offer[n] = []uint64{16, 16}
			deadNs := dv.neighbors.Get(nbrs[n])
			verifNoPanic("C19/router/no-panic", func() { dv.checkDeadNeighbors() })
			// an update for the dead neighbour's last advertisement that was still pending when it was removed
			verifNoPanic("C19/router/no-panic", func() { dv.ribUpdate(deadNs) })
		} else {
			if !alive[n] {
				alive[n] = true
				dv.neighbors.Add(nbrs[n]).RecvPing(faces[n], true)
			}
			adv := &tlv.Advertisement{}
			for d := 0; d < 2; d++ {
				offer[n][d] = 16
				if k == 1 && d == 1 {
					continue // n2 offers d1 only
				}
				if k <= 1 {
					// fixed pre-history: n1 offers d1 at cost 1 and d2 at cost 2, then n2 offers d1 at cost 2
					c := uint64(1 + d + k)
					offer[n][d] = c + 1
					adv.Entries = append(adv.Entries, &tlv.AdvEntry{
						Destination: &tlv.Destination{Name: dests[d]}, NextHop: &tlv.Destination{Name: via}, Cost: c, OtherCost: 16})
				} else if verifBool("offers") {
					c := verifRange("cost", 1, 3)
					offer[n][d] = c + 1
					adv.Entries = append(adv.Entries, &tlv.AdvEntry{
						Destination: &tlv.Destination{Name: dests[d]}, NextHop: &tlv.Destination{Name: via}, Cost: c, OtherCost: 16})
				}
			}
			ns := dv.neighbors.Get(nbrs[n])
			ns.Advert = adv
			verifNoPanic("C19/router/no-panic", func() { dv.ribUpdate(ns) })
		}
		verifNoPanic("C19/router/no-panic", func() { dv.fibUpdate() })
		if verifSymbolic() || !started {
			started = true
			go dv.nfdc.Start()
		}
		verifRunGoroutines()
		ref = verifMirrorApply(ref, cmds)
		cmds = cmds[:0]

		// what the tables prescribe for each remote router
		for d := 0; d < 2; d++ {
			c1, c2 := uint64(16), uint64(16)
			for m := 0; m < nn; m++ {
				if !alive[m] {
					continue
				}
				if offer[m][d] < c1 {
					c1, c2 = offer[m][d], c1
				} else if offer[m][d] < c2 {
					c2 = offer[m][d]
				}
			}
			routes := verifMirrorRoutesOf(ref, routerPrefix(dests[d]))
			want := 0
			if c1 < 16 {
				want++
			}
			if c2 < 16 {
				want++
			}
			verifAssert(len(routes) == want, "C19/router/one-route-per-best-and-finite-second-best-next-hop")
			for _, r := range routes {
				ok := false
				for m := 0; m < nn; m++ {
					if alive[m] && faces[m] == r.face && offer[m][d] == r.cost && (r.cost == c1 || r.cost == c2) {
						ok = true
					}
				}
				verifAssert(ok, "C19/router/route-face-belongs-to-a-live-neighbour-offering-that-cost")
			}
			if want == 2 && len(routes) == 2 {
				verifAssert((routes[0].cost == c1 && routes[1].cost == c2) || (routes[0].cost == c2 && routes[1].cost == c1), "C19/router/costs-are-best-and-second-best")
			}
		}
		// announced prefixes: per face the lowest cost over the announcing routers' routes; nothing else
		for pi, p := range []enc.Name{p1, p2} {
			announcers := []int{0, 1}
			if pi == 1 {
				announcers = []int{0}
			}
			var want []verifMirrorRoute
			for _, d := range announcers {
				for _, r := range verifMirrorRoutesOf(ref, routerPrefix(dests[d])) {
					found := false
					for i := range want {
						if want[i].face == r.face {
							found = true
							if r.cost < want[i].cost {
								want[i].cost = r.cost
							}
						}
					}
					if !found {
						want = append(want, verifMirrorRoute{p, r.face, r.cost})
					}
				}
			}
			got := verifMirrorRoutesOf(ref, p)
			verifAssert(len(got) == len(want), "C19/router/prefix-routes-follow-the-announcing-routers")
			for _, w := range want {
				ok := false
				for _, g := range got {
					if g.face == w.face && g.cost == w.cost {
						ok = true
					}
				}
				verifAssert(ok, "C19/router/prefix-routes-follow-the-announcing-routers")
			}
		}
		for _, r := range ref {
			verifAssert(r.face != 0, "C19/router/no-route-on-face-zero")
		}
	}
	verifObserve("routes", len(ref))
}
