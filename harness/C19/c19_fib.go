//verif:dir dv/table
package table

import (
	"time"

	"github.com/named-data/ndnd/dv/config"
	"github.com/named-data/ndnd/dv/nfdc"
	enc "github.com/named-data/ndnd/std/encoding"
	"github.com/named-data/ndnd/std/ndn"
	mgmt "github.com/named-data/ndnd/std/ndn/mgmt_2022"
	spec "github.com/named-data/ndnd/std/ndn/spec_2022"
)

// C19 (route mirror): the register/unregister command stream produced by the DV FIB is replayed
// into a reference route table and compared with "finite-cost candidates, minimum cost per face"
// after every round of UnmarkAll / UpdateH / MarkH / RemoveUnmarked.

type verifCmd struct {
	module, cmd string
	name        enc.Name
	face, cost  uint64
	hasCost     bool
}

type verifRecEngine struct{ cmds *[]verifCmd }

type verifTimer19 struct{}

func (verifTimer19) Now() time.Time                              { return time.Unix(0, 0) }
func (verifTimer19) Sleep(time.Duration)                         {}
func (verifTimer19) Schedule(time.Duration, func()) func() error { return func() error { return nil } }
func (verifTimer19) Nonce() []byte                               { return []byte{1, 2, 3, 4, 5, 6, 7, 8} }

func (e verifRecEngine) EngineTrait() ndn.Engine                                      { return e }
func (verifRecEngine) Spec() ndn.Spec                                                 { return spec.Spec{} }
func (verifRecEngine) Timer() ndn.Timer                                               { return verifTimer19{} }
func (verifRecEngine) Start() error                                                   { return nil }
func (verifRecEngine) Stop() error                                                    { return nil }
func (verifRecEngine) IsRunning() bool                                                { return true }
func (verifRecEngine) AttachHandler(enc.Name, ndn.InterestHandler) error              { return nil }
func (verifRecEngine) DetachHandler(enc.Name) error                                   { return nil }
func (verifRecEngine) Express(*ndn.EncodedInterest, ndn.ExpressCallbackFunc) error    { return nil }
func (verifRecEngine) RegisterRoute(enc.Name) error                                   { return nil }
func (verifRecEngine) UnregisterRoute(enc.Name) error                                 { return nil }
func (e verifRecEngine) ExecMgmtCmd(module string, cmd string, args any) error {
	a := args.(*mgmt.ControlArgs)
	c := verifCmd{module: module, cmd: cmd, name: a.Name}
	if a.FaceId != nil {
		c.face = *a.FaceId
	}
	if a.Cost != nil {
		c.cost, c.hasCost = *a.Cost, true
	}
	*e.cmds = append(*e.cmds, c)
	return nil
}

type verifRouteRef struct {
	name enc.Name
	face uint64
	cost uint64
}

func verifApplyCmds(ref []verifRouteRef, cmds []verifCmd) []verifRouteRef {
	for _, c := range cmds {
		idx := -1
		for i, r := range ref {
			if r.face == c.face && r.name.Equal(c.name) {
				idx = i
			}
		}
		if c.cmd == "register" {
			if idx >= 0 {
				ref[idx].cost = c.cost
			} else {
				ref = append(ref, verifRouteRef{c.name, c.face, c.cost})
			}
		} else if c.cmd == "unregister" && idx >= 0 {
			ref = append(ref[:idx], ref[idx+1:]...)
		}
	}
	return ref
}

func VerifC19_FibMirror() {
	cfg := config.DefaultConfig()
	var cmds []verifCmd
	mt := nfdc.NewNfdMgmtThread(verifRecEngine{cmds: &cmds})
	verifQueueGoroutines(true)
	fib := NewFib(cfg, mt)
	names := []enc.Name{}
	for _, s := range []string{"/p1", "/p2"} {
		n, _ := enc.NameFromStr(s)
		names = append(names, n)
	}
	var ref []verifRouteRef
	rounds := verifParam("rounds", 2)
	maxCand := verifParam("cands", 2)
	for round := 0; round < rounds; round++ {
		desired := []verifRouteRef{}
		fib.UnmarkAll()
		for pi, name := range names {
			if pi == 1 && verifParam("prefixes", 2) < 2 {
				break
			}
			if !verifBool("present") {
				continue
			}
			nc := verifChoice("ncand", maxCand+1)
			var fes []FibEntry
			for i := 0; i < nc; i++ {
				fe := FibEntry{FaceId: verifRange("face", 1, 3), Cost: verifRange("cost", 0, 20)}
				fes = append(fes, fe)
				if fe.Cost < config.CostInfinity {
					found := false
					for k := range desired {
						if desired[k].face == fe.FaceId && desired[k].name.Equal(name) {
							found = true
							if fe.Cost < desired[k].cost {
								desired[k].cost = fe.Cost
							}
						}
					}
					if !found {
						desired = append(desired, verifRouteRef{name, fe.FaceId, fe.Cost})
					}
				}
			}
			if fib.UpdateH(name.Hash(), name, fes) {
				fib.MarkH(name.Hash())
			}
		}
		verifNoPanic("C19/fib/no-panic", func() { fib.RemoveUnmarked() })
		// the management thread drains the command channel (the symbolic engine runs a queued goroutine to
		// its first blocking point and then drops it, so it is restarted per round there)
		if verifSymbolic() || round == 0 {
			go mt.Start()
		}
		verifRunGoroutines()
		ref = verifApplyCmds(ref, cmds)
		cmds = cmds[:0]
		// reference table (from the command stream) == desired (from scratch)
		verifAssert(len(ref) == len(desired), "C19/fib/registered-routes-count-equals-desired")
		for _, d := range desired {
			ok := false
			for _, r := range ref {
				if r.face == d.face && r.name.Equal(d.name) && r.cost == d.cost {
					ok = true
				}
			}
			verifAssert(ok, "C19/fib/every-desired-route-registered-at-lowest-cost")
		}
	}
}

// VerifXC19Age makes a neighbour look as if it had last been heard of d earlier (the harness in package dv cannot
// reach the unexported field; natively the clock cannot be advanced).
func VerifXC19Age(ns *NeighborState, d time.Duration) { ns.lastSeen = ns.lastSeen.Add(-d) }
