//verif:dir dv/dv
package dv

import (
	"time"

	"github.com/named-data/ndnd/dv/config"
	enc "github.com/named-data/ndnd/std/encoding"
	"github.com/named-data/ndnd/std/ndn"
	spec "github.com/named-data/ndnd/std/ndn/spec_2022"
)

// C19 (fetch rule): a peer asks for the next operation, or for the snapshot iff it is more than
// 100 operations behind (sequence numbers symbolic).

type verifFetchEngine struct{ names *[]enc.Name }

type verifTimerF struct{}

func (verifTimerF) Now() time.Time                              { return time.Unix(0, 0) }
func (verifTimerF) Sleep(time.Duration)                         {}
func (verifTimerF) Schedule(time.Duration, func()) func() error { return func() error { return nil } }
func (verifTimerF) Nonce() []byte                               { return []byte{1, 2, 3, 4, 5, 6, 7, 8} }

func (e verifFetchEngine) EngineTrait() ndn.Engine                             { return e }
func (verifFetchEngine) Spec() ndn.Spec                                        { return spec.Spec{} }
func (verifFetchEngine) Timer() ndn.Timer                                      { return verifTimerF{} }
func (verifFetchEngine) Start() error                                          { return nil }
func (verifFetchEngine) Stop() error                                           { return nil }
func (verifFetchEngine) IsRunning() bool                                       { return true }
func (verifFetchEngine) AttachHandler(enc.Name, ndn.InterestHandler) error     { return nil }
func (verifFetchEngine) DetachHandler(enc.Name) error                          { return nil }
func (e verifFetchEngine) Express(i *ndn.EncodedInterest, cb ndn.ExpressCallbackFunc) error {
	*e.names = append(*e.names, i.FinalName)
	return nil
}
func (verifFetchEngine) RegisterRoute(enc.Name) error          { return nil }
func (verifFetchEngine) UnregisterRoute(enc.Name) error        { return nil }
func (verifFetchEngine) ExecMgmtCmd(string, string, any) error { return nil }

func VerifC19_FetchNextOrSnapshot() {
	cfg := config.DefaultConfig()
	cfg.Network, cfg.Router = "/net", "/r0"
	var names []enc.Name
	dv, err := NewRouter(cfg, verifFetchEngine{names: &names})
	verifAssert(err == nil, "C19/fetch/setup")
	peer, _ := enc.NameFromStr("/r1")
	dv.rib.Set(peer, peer, 1)
	router := dv.pfx.GetRouter(peer)
	router.Known = verifRange("known", 0, 1<<40)
	router.Latest = verifRange("latest", 0, 1<<40)
	names = names[:0]
	verifNoPanic("C19/fetch/no-panic", func() { dv.prefixDataFetch(peer) })
	if router.Known >= router.Latest {
		verifAssert(len(names) == 0, "C19/fetch/nothing-requested-when-up-to-date")
		return
	}
	verifAssert(len(names) == 1, "C19/fetch/one-request")
	if len(names) != 1 {
		return
	}
	n := names[0]
	last := n[len(n)-1]
	isSnap := false
	for _, c := range n {
		if c.Typ == enc.TypeKeywordNameComponent && string(c.Val) == "SNAP" {
			isSnap = true
		}
	}
	verifAssert(isSnap == (router.Latest-router.Known > 100), "C19/fetch/snapshot-iff-gap-exceeds-100")
	if !isSnap {
		verifAssert(last.Typ == enc.TypeSequenceNumNameComponent && last.NumberVal() == router.Known+1, "C19/fetch/next-operation-is-known-plus-one")
	}
}
