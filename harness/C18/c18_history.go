//verif:dir dv/dv
package dv

import (
	"time"

	"github.com/named-data/ndnd/dv/table"
	"github.com/named-data/ndnd/dv/tlv"
	enc "github.com/named-data/ndnd/std/encoding"
)

// C18 (history independence): a router that has processed any history of advertisements and neighbour losses
// holds exactly the table of a fresh router that is given each live neighbour's LATEST advertisement once, in
// another order: same reachable set, same costs, same best and second-best next hops (ties broken the same
// way every time), nothing lingering from withdrawn entries, nothing at or above infinity advertised.
// Costs come from a small symbolic range so that ties (also three-way) are frequent.
func VerifC18_HistoryVsScratch() {
	nn := verifParam("hneighbours", 3)
	nd := verifParam("hdests", 2)
	nev := verifParam("hevents", 3)
	var nbrs, dests []enc.Name
	for i := 0; i < nn; i++ {
		nbrs = append(nbrs, verifC18Name("/n"+string(rune('1'+i))))
	}
	for i := 0; i < nd; i++ {
		dests = append(dests, verifC18Name("/d"+string(rune('1'+i))))
	}
	via := verifC18Name("/x")
	r := verifC18Router("/r0")
	latest := make([]*tlv.Advertisement, nn) // nil: never heard of, or dead
	for k := 0; k < nev; k++ {
		n := verifChoice("neighbour", nn)
		if latest[n] != nil && verifBool("dies") {
			latest[n] = nil
			verifNoPanic("C18/history/no-panic", func() { r.rib.RemoveNextHop(nbrs[n]); r.rib.Prune() })
			continue
		}
		adv := &tlv.Advertisement{}
		for d := 0; d < nd; d++ {
			if verifBool("offers") {
				adv.Entries = append(adv.Entries, &tlv.AdvEntry{
					Destination: &tlv.Destination{Name: dests[d]}, NextHop: &tlv.Destination{Name: via},
					Cost: verifRange("cost", 1, 3), OtherCost: 16})
			}
		}
		latest[n] = adv
		verifNoPanic("C18/history/no-panic", func() { r.ribUpdate(&table.NeighborState{Name: nbrs[n], Advert: adv}) })
	}
	fresh := verifC18Router("/r0")
	for n := nn - 1; n >= 0; n-- {
		if latest[n] != nil {
			fresh.ribUpdate(&table.NeighborState{Name: nbrs[n], Advert: latest[n]})
		}
	}
	for d := 0; d < nd; d++ {
		verifAssert(r.rib.Has(dests[d]) == fresh.rib.Has(dests[d]), "C18/history/reachable-set-equals-that-of-the-latest-advertisements")
		h1, a1, a2, x1, x2 := table.VerifXC18Entry(r.rib, dests[d])
		h2, b1, b2, y1, y2 := table.VerifXC18Entry(fresh.rib, dests[d])
		if !fresh.rib.Has(dests[d]) {
			verifAssert(!h1 || a1 >= 16, "C18/history/withdrawn-destination-does-not-linger")
			continue
		}
		verifAssert(h1 && h2, "C18/history/reachable-set-equals-that-of-the-latest-advertisements")
		verifAssert(a1 == b1 && a2 == b2, "C18/history/costs-equal-those-of-the-latest-advertisements")
		verifAssert(x1 == y1, "C18/history/best-next-hop-independent-of-history")
		if b2 < 16 {
			verifAssert(x2 == y2, "C18/history/second-best-next-hop-independent-of-history")
		}
	}
	// the advertisement lists exactly the reachable destinations, below infinity
	out := r.rib.Advert()
	for _, e := range out.Entries {
		verifAssert(e.Cost < 16, "C18/advert/no-destination-at-or-above-infinity")
		known := false
		for d := 0; d < nd; d++ {
			if e.Destination.Name.Equal(dests[d]) {
				known = true
				verifAssert(fresh.rib.Has(dests[d]), "C18/history/withdrawn-destination-is-not-advertised")
			}
		}
		verifAssert(known, "C18/history/withdrawn-destination-is-not-advertised")
	}
	verifObserve("entries", len(out.Entries))
}

// A neighbour is declared dead while an update for its last advertisement is still pending (the advertisement
// handler schedules `go ribUpdate(ns)`; the dead-neighbour check can win the race for the mutex): the late update,
// running on the orphaned neighbour state, must not bring the withdrawn destinations back.
func VerifC18_LateUpdateAfterDeath() {
	r := verifC18Router("/r0")
	nb, other := verifC18Name("/n1"), verifC18Name("/n2")
	d1, d2 := verifC18Name("/d1"), verifC18Name("/d2")
	via := verifC18Name("/x")
	ns := r.neighbors.Add(nb)
	ns.Advert = &tlv.Advertisement{Entries: []*tlv.AdvEntry{
		{Destination: &tlv.Destination{Name: d1}, NextHop: &tlv.Destination{Name: via}, Cost: verifRange("c1", 1, 14), OtherCost: 16},
		{Destination: &tlv.Destination{Name: d2}, NextHop: &tlv.Destination{Name: via}, Cost: verifRange("c2", 1, 14), OtherCost: 16},
	}}
	r.ribUpdate(ns)
	// d2 is also offered by a neighbour that stays alive
	hasOther := verifBool("otherOffersD2")
	if hasOther {
		ons := r.neighbors.Add(other)
		ons.Advert = &tlv.Advertisement{Entries: []*tlv.AdvEntry{
			{Destination: &tlv.Destination{Name: d2}, NextHop: &tlv.Destination{Name: via}, Cost: verifRange("c3", 1, 14), OtherCost: 16}}}
		r.ribUpdate(ons)
	}
	verifAssert(r.rib.Has(d1) && r.rib.Has(d2), "C18/late/setup")
	table.VerifXC18Age(ns, r.config.RouterDeadInterval()+time.Second)
	verifNoPanic("C18/late/no-panic", func() { r.checkDeadNeighbors() })
	verifAssert(!r.rib.Has(d1), "C18/late/destination-only-via-dead-neighbour-withdrawn")
	// the update that was pending when the neighbour died
	verifNoPanic("C18/late/no-panic", func() { r.ribUpdate(ns) })
	verifAssert(!r.rib.Has(d1), "C18/late/withdrawn-destination-does-not-come-back")
	verifAssert(r.rib.Has(d2) == hasOther, "C18/late/destination-with-alternative-kept")
	for _, e := range r.rib.Advert().Entries {
		verifAssert(e.Cost < 16, "C18/advert/no-destination-at-or-above-infinity")
		verifAssert(!e.Destination.Name.Equal(d1), "C18/late/withdrawn-destination-does-not-come-back")
		if e.Destination.Name.Equal(d2) {
			verifAssert(!e.NextHop.Name.Equal(nb), "C18/late/no-route-via-the-dead-neighbour")
		}
	}
}
