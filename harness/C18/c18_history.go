//verif:dir dv/dv
package dv

import (
	"github.com/named-data/ndnd/dv/table"
	"github.com/named-data/ndnd/dv/tlv"
	enc "github.com/named-data/ndnd/std/encoding"
)

// C18 (history independence): a router that has processed any history of advertisements and neighbour losses
// holds exactly the table of a fresh router that is given each live neighbour's LATEST advertisement once, in
// another order: same reachable set, same costs, same best and second-best next hops (ties broken the same
// way every time), nothing lingering from withdrawn entries, nothing at or above infinity advertised.
// Costs come from a small symbolic range so that ties (also three-way) are frequent.
func VerifC18_HistoryVsScratch() {
	nn := verifParam("hneighbours", 3)
	nd := verifParam("hdests", 2)
	nev := verifParam("hevents", 3)
	var nbrs, dests []enc.Name
	for i := 0; i < nn; i++ {
		nbrs = append(nbrs, verifC18Name("/n"+string(rune('1'+i))))
	}
	for i := 0; i < nd; i++ {
		dests = append(dests, verifC18Name("/d"+string(rune('1'+i))))
	}
	via := verifC18Name("/x")
	r := verifC18Router("/r0")
	latest := make([]*tlv.Advertisement, nn) // nil: never heard of, or dead
	for k := 0; k < nev; k++ {
		n := verifChoice("neighbour", nn)
		if latest[n] != nil && verifBool("dies") {
			latest[n] = nil
			verifNoPanic("C18/history/no-panic", func() { r.rib.RemoveNextHop(nbrs[n]); r.rib.Prune() })
			continue
		}
		adv := &tlv.Advertisement{}
		for d := 0; d < nd; d++ {
			if verifBool("offers") {
				adv.Entries = append(adv.Entries, &tlv.AdvEntry{
					Destination: &tlv.Destination{Name: dests[d]}, NextHop: &tlv.Destination{Name: via},
					Cost: verifRange("cost", 1, 3), OtherCost: 16})
			}
		}
		latest[n] = adv
		verifNoPanic("C18/history/no-panic", func() { r.ribUpdate(&table.NeighborState{Name: nbrs[n], Advert: adv}) })
	}
	fresh := verifC18Router("/r0")
	for n := nn - 1; n >= 0; n-- {
		if latest[n] != nil {
			fresh.ribUpdate(&table.NeighborState{Name: nbrs[n], Advert: latest[n]})
		}
	}
	for d := 0; d < nd; d++ {
		verifAssert(r.rib.Has(dests[d]) == fresh.rib.Has(dests[d]), "C18/history/reachable-set-equals-that-of-the-latest-advertisements")
		h1, a1, a2, x1, x2 := table.VerifXC18Entry(r.rib, dests[d])
		h2, b1, b2, y1, y2 := table.VerifXC18Entry(fresh.rib, dests[d])
		if !fresh.rib.Has(dests[d]) {
			verifAssert(!h1 || a1 >= 16, "C18/history/withdrawn-destination-does-not-linger")
			continue
		}
		verifAssert(h1 && h2, "C18/history/reachable-set-equals-that-of-the-latest-advertisements")
		verifAssert(a1 == b1 && a2 == b2, "C18/history/costs-equal-those-of-the-latest-advertisements")
		verifAssert(x1 == y1, "C18/history/best-next-hop-independent-of-history")
		if b2 < 16 {
			verifAssert(x2 == y2, "C18/history/second-best-next-hop-independent-of-history")
		}
	}
	// the advertisement lists exactly the reachable destinations, below infinity
	out := r.rib.Advert()
	for _, e := range out.Entries {
		verifAssert(e.Cost < 16, "C18/advert/no-destination-at-or-above-infinity")
		known := false
		for d := 0; d < nd; d++ {
			if e.Destination.Name.Equal(dests[d]) {
				known = true
				verifAssert(fresh.rib.Has(dests[d]), "C18/history/withdrawn-destination-is-not-advertised")
			}
		}
		verifAssert(known, "C18/history/withdrawn-destination-is-not-advertised")
	}
	verifObserve("entries", len(out.Entries))
}
