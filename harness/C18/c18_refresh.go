//verif:dir dv/table
package table

import (
	"time"

	"github.com/named-data/ndnd/dv/config"
	enc "github.com/named-data/ndnd/std/encoding"
)

// C18 (tie-break): the best / second-best computation does not depend on map iteration order.
func VerifC18_RefreshOrderIndependent() {
	cfg := config.DefaultConfig()
	d, _ := enc.NameFromStr("/d")
	hopNames := []string{"/n1", "/n2", "/n3"}
	costs := []uint64{verifRange("c1", 0, 16), verifRange("c2", 0, 16), verifRange("c3", 0, 16)}
	build := func(order []int) *RibEntry {
		r := NewRib(cfg)
		for _, i := range order {
			n, _ := enc.NameFromStr(hopNames[i])
			r.Set(d, n, costs[i])
		}
		e := r.entries[d.Hash()]
		e.refresh()
		return e
	}
	a := build([]int{0, 1, 2})
	orders := [][]int{{0, 2, 1}, {1, 0, 2}, {1, 2, 0}, {2, 0, 1}, {2, 1, 0}}
	b := build(orders[verifChoice("order", len(orders))])
	verifAssert(a.lowest1 == b.lowest1 && a.lowest2 == b.lowest2, "C18/refresh/costs-independent-of-order")
	verifAssert(a.nextHop1 == b.nextHop1 && a.nextHop2 == b.nextHop2, "C18/refresh/next-hops-independent-of-order")
	// the two lowest costs
	lo1, lo2 := uint64(16), uint64(16)
	for _, c := range costs {
		if c < lo1 {
			lo2 = lo1
			lo1 = c
		} else if c < lo2 {
			lo2 = c
		}
	}
	verifAssert(a.lowest1 == lo1 && a.lowest2 == lo2, "C18/refresh/two-lowest-costs")
}

// VerifXC18Entry exposes the stored best / second-best state of a destination to the harness in package dv.
func VerifXC18Entry(r *Rib, dest enc.Name) (has bool, l1, l2, nh1, nh2 uint64) {
	e := r.entries[dest.Hash()]
	if e == nil {
		return false, 0, 0, 0, 0
	}
	return true, e.lowest1, e.lowest2, e.nextHop1, e.nextHop2
}

// VerifXC18Age makes a neighbour look as if it had last been heard of d earlier.
func VerifXC18Age(ns *NeighborState, d time.Duration) { ns.lastSeen = ns.lastSeen.Add(-d) }
