//verif:dir dv/dv
package dv

import (
	"time"

	"github.com/named-data/ndnd/dv/config"
	"github.com/named-data/ndnd/dv/table"
	"github.com/named-data/ndnd/dv/tlv"
	enc "github.com/named-data/ndnd/std/encoding"
	"github.com/named-data/ndnd/std/ndn"
	spec "github.com/named-data/ndnd/std/ndn/spec_2022"
)

// C18 (local rule): ribUpdate on one neighbour advertisement equals the SPEC's update rule
// evaluated without wrap-around, for every 64-bit cost / other-cost.

func verifC18Router(name string) *Router {
	cfg := config.DefaultConfig()
	cfg.Network = "/net"
	cfg.Router = name
	if err := cfg.Parse(); err != nil {
		panic(err)
	}
	if !verifSymbolic() {
		// native replay: ribUpdate spawns a goroutine (FIB update / sync notification) that the symbolic
		// run drops; give it a fully constructed router so that it runs harmlessly
		cfg2 := config.DefaultConfig()
		cfg2.Network, cfg2.Router = "/net", name
		r, err := NewRouter(cfg2, verifEngine{})
		if err != nil {
			panic(err)
		}
		return r
	}
	return &Router{config: cfg, rib: table.NewRib(cfg), neighbors: table.NewNeighborTable(cfg, nil)}
}

type verifEngine struct{}

type verifTimer struct{}

func (verifTimer) Now() time.Time                             { return time.Unix(0, 0) }
func (verifTimer) Sleep(time.Duration)                        {}
func (verifTimer) Schedule(time.Duration, func()) func() error { return func() error { return nil } }
func (verifTimer) Nonce() []byte                              { return []byte{1, 2, 3, 4, 5, 6, 7, 8} }

func (verifEngine) EngineTrait() ndn.Engine                                  { return verifEngine{} }
func (verifEngine) Spec() ndn.Spec                                           { return spec.Spec{} }
func (verifEngine) Timer() ndn.Timer                                         { return verifTimer{} }
func (verifEngine) Start() error                                             { return nil }
func (verifEngine) Stop() error                                              { return nil }
func (verifEngine) IsRunning() bool                                          { return true }
func (verifEngine) AttachHandler(enc.Name, ndn.InterestHandler) error        { return nil }
func (verifEngine) DetachHandler(enc.Name) error                             { return nil }
func (verifEngine) Express(*ndn.EncodedInterest, ndn.ExpressCallbackFunc) error { return nil }
func (verifEngine) RegisterRoute(enc.Name) error                             { return nil }
func (verifEngine) UnregisterRoute(enc.Name) error                           { return nil }
func (verifEngine) ExecMgmtCmd(string, string, any) error                    { return nil }

func verifC18Name(s string) enc.Name {
	n, _ := enc.NameFromStr(s)
	return n
}

// expected cost via neighbour for an advertised entry, in unbounded arithmetic; 16 = unreachable
func verifC18Expected(cost, other uint64, nextHopIsSelf bool) uint64 {
	c := cost
	if nextHopIsSelf {
		c = other
	}
	if c >= 15 {
		return 16
	}
	return c + 1
}

func VerifC18_UpdateRule() {
	r := verifC18Router("/r0")
	nb := verifC18Name("/n1")
	dests := []enc.Name{verifC18Name("/d1"), verifC18Name("/d2")}
	hops := []enc.Name{verifC18Name("/r0"), verifC18Name("/n1"), verifC18Name("/x")}
	// optional pre-state: d1 already reachable through another neighbour with a finite cost
	pre := verifBool("pre")
	var preCost uint64
	if pre {
		preCost = verifRange("precost", 1, 15)
		r.rib.Set(dests[0], verifC18Name("/n2"), preCost)
	}
	ne := 1 + verifChoice("nentries", 2)
	adv := &tlv.Advertisement{}
	exp := []uint64{16, 16}
	for i := 0; i < ne; i++ {
		di := i
		if ne == 1 {
			di = verifChoice("dest", 2)
		}
		hi := verifChoice("nexthop", 3)
		cost, other := verifU64("cost"), verifU64("other")
		adv.Entries = append(adv.Entries, &tlv.AdvEntry{
			Destination: &tlv.Destination{Name: dests[di]},
			NextHop:     &tlv.Destination{Name: hops[hi]},
			Cost:        cost, OtherCost: other})
		exp[di] = verifC18Expected(cost, other, hi == 0)
	}
	// a crafted entry without Destination / NextHop must be ignored, not crash the router
	switch verifChoice("malformed", 3) {
	case 1:
		adv.Entries = append(adv.Entries, &tlv.AdvEntry{NextHop: &tlv.Destination{Name: hops[1]}, Cost: 1})
	case 2:
		adv.Entries = append(adv.Entries, &tlv.AdvEntry{Destination: &tlv.Destination{Name: verifC18Name("/d3")}, Cost: 1})
	}
	ns := &table.NeighborState{Name: nb, Advert: adv}
	verifNoPanic("C18/rule/no-panic", func() { r.ribUpdate(ns) })
	out := r.rib.Advert()
	for di, d := range dests {
		want := exp[di]
		if di == 0 && pre && preCost < want {
			want = preCost
		}
		var got uint64 = 16
		for _, e := range out.Entries {
			if e.Destination.Name.Equal(d) {
				got = e.Cost
				verifAssert(e.Cost < 16, "C18/advert/no-destination-at-or-above-infinity")
			}
		}
		verifAssert(got == want, "C18/rule/best-cost-equals-spec-rule")
		verifAssert(r.rib.Has(d) == (want < 16), "C18/rule/reachable-iff-finite")
	}
}

// a neighbour dies: destinations reachable only through it are withdrawn, others keep their best cost
func VerifC18_DeadNeighbour() {
	r := verifC18Router("/r0")
	d1, d2 := verifC18Name("/d1"), verifC18Name("/d2")
	n1, n2 := verifC18Name("/n1"), verifC18Name("/n2")
	c11, c12, c21 := verifRange("c11", 1, 15), verifRange("c12", 1, 16), verifRange("c21", 1, 15)
	r.rib.Set(d1, n1, c11)
	if c12 < 16 {
		r.rib.Set(d1, n2, c12)
	}
	r.rib.Set(d2, n1, c21)
	verifNoPanic("C18/dead/no-panic", func() { r.rib.RemoveNextHop(n1); r.rib.Prune() })
	verifAssert(!r.rib.Has(d2), "C18/dead/destination-only-via-dead-neighbour-withdrawn")
	verifAssert(r.rib.Has(d1) == (c12 < 16), "C18/dead/destination-with-alternative-kept")
	for _, e := range r.rib.Advert().Entries {
		verifAssert(e.Cost < 16, "C18/advert/no-destination-at-or-above-infinity")
		verifAssert(!e.Destination.Name.Equal(d2), "C18/dead/withdrawn-not-advertised")
		if e.Destination.Name.Equal(d1) {
			verifAssert(e.Cost == c12, "C18/dead/remaining-best-cost")
		}
	}
}

// neighbours die one after the other: after every loss each destination's cost is the minimum over the neighbours
// still alive (through any number of them, whatever their rank was) and a destination with none left is withdrawn
func VerifC18_SequentialLoss() {
	r := verifC18Router("/r0")
	nn := verifParam("neighbours", 4)
	dests := []enc.Name{verifC18Name("/d1"), verifC18Name("/d2")}[:verifParam("dests", 1)]
	var nbrs []enc.Name
	for i := 0; i < nn; i++ {
		nbrs = append(nbrs, verifC18Name("/n"+string(rune('1'+i))))
	}
	// cost[d][n]: 16 = this neighbour does not offer the destination
	cost := make([][]uint64, len(dests))
	for d := range dests {
		cost[d] = make([]uint64, nn)
		for n := 0; n < nn; n++ {
			cost[d][n] = verifRange("c", 1, 16)
			if cost[d][n] < 16 {
				r.rib.Set(dests[d], nbrs[n], cost[d][n])
			}
		}
	}
	alive := make([]bool, nn)
	for i := range alive {
		alive[i] = true
	}
	check := func() {
		for d := range dests {
			want := uint64(16)
			for n := 0; n < nn; n++ {
				if alive[n] && cost[d][n] < want {
					want = cost[d][n]
				}
			}
			verifAssert(r.rib.Has(dests[d]) == (want < 16), "C18/loss/reachable-iff-a-live-neighbour-offers-it")
			got := uint64(16)
			for _, e := range r.rib.Advert().Entries {
				verifAssert(e.Cost < 16, "C18/advert/no-destination-at-or-above-infinity")
				if e.Destination.Name.Equal(dests[d]) {
					got = e.Cost
				}
			}
			verifAssert(got == want, "C18/loss/cost-is-the-minimum-over-live-neighbours")
		}
	}
	check()
	losses := verifParam("losses", 3)
	for k := 0; k < losses; k++ {
		var cands []int
		for n := 0; n < nn; n++ {
			if alive[n] {
				cands = append(cands, n)
			}
		}
		if len(cands) == 0 {
			break
		}
		n := cands[verifChoice("dies", len(cands))]
		alive[n] = false
		verifNoPanic("C18/loss/no-panic", func() { r.rib.RemoveNextHop(nbrs[n]); r.rib.Prune() })
		check()
	}
}

// global: up to 3 routers with real RIBs exchange advertisements in an explorer-chosen order,
// then fairly until quiescence; the fixed point is the hop distance.
func VerifC18_Converge3() {
	names := []string{"/r0", "/r1", "/r2"}
	rs := []*Router{verifC18Router(names[0]), verifC18Router(names[1]), verifC18Router(names[2])}
	adj := [3][3]bool{}
	edges := [][2]int{{0, 1}, {1, 2}, {0, 2}}
	ne := 0
	for _, e := range edges {
		if verifBool("edge") {
			adj[e[0]][e[1]], adj[e[1]][e[0]] = true, true
			ne++
		}
	}
	verifAssume(ne >= 2) // connected on three nodes
	for i, r := range rs {
		r.rib.Set(r.config.RouterName(), r.config.RouterName(), 0)
		_ = i
	}
	deliver := func(from, to int) {
		ns := &table.NeighborState{Name: rs[from].config.RouterName(), Advert: rs[from].rib.Advert()}
		rs[to].ribUpdate(ns)
	}
	var links [][2]int
	for i := 0; i < 3; i++ {
		for j := 0; j < 3; j++ {
			if adj[i][j] {
				links = append(links, [2]int{i, j})
			}
		}
	}
	steps := verifParam("sched", 3)
	for s := 0; s < steps; s++ {
		l := links[verifChoice("deliver", len(links))]
		deliver(l[0], l[1])
	}
	for round := 0; round < 4; round++ {
		for _, l := range links {
			deliver(l[0], l[1])
		}
	}
	// hop distances
	for i := 0; i < 3; i++ {
		for j := 0; j < 3; j++ {
			if i == j {
				continue
			}
			dist := uint64(2)
			if adj[i][j] {
				dist = 1
			}
			var got uint64 = 16
			for _, e := range rs[i].rib.Advert().Entries {
				if e.Destination.Name.Equal(rs[j].config.RouterName()) {
					got = e.Cost
				}
			}
			verifAssert(got == dist, "C18/converge/cost-is-hop-distance")
		}
	}
	// one link loss (if the graph stays connected), then re-convergence
	if ne == 3 {
		k := verifChoice("cut", 3)
		a, b := edges[k][0], edges[k][1]
		adj[a][b], adj[b][a] = false, false
		rs[a].rib.RemoveNextHop(rs[b].config.RouterName())
		rs[a].rib.Prune()
		rs[b].rib.RemoveNextHop(rs[a].config.RouterName())
		rs[b].rib.Prune()
		links = links[:0]
		for i := 0; i < 3; i++ {
			for j := 0; j < 3; j++ {
				if adj[i][j] {
					links = append(links, [2]int{i, j})
				}
			}
		}
		for round := 0; round < 20; round++ {
			for _, l := range links {
				deliver(l[0], l[1])
			}
		}
		var got uint64 = 16
		for _, e := range rs[a].rib.Advert().Entries {
			if e.Destination.Name.Equal(rs[b].config.RouterName()) {
				got = e.Cost
			}
		}
		verifAssert(got == 2, "C18/converge/reconverges-after-link-loss")
	}
}
