//verif:dir std/engine/basic
package basic

import (
	"bytes"
	"crypto/sha256"
	"time"

	enc "github.com/named-data/ndnd/std/encoding"
	"github.com/named-data/ndnd/std/engine/dummy"
	"github.com/named-data/ndnd/std/ndn"
	spec "github.com/named-data/ndnd/std/ndn/spec_2022"
)

// C20: every expressed Interest resolves exactly once, only with Data that satisfies it.
// Real basic.Engine on the dummy face and dummy (virtual) timer; names over a two-letter
// alphabet chosen by the explorer; lifetimes and clock advances are solver variables.

type verifSigner struct{}

func (verifSigner) SigInfo() (*ndn.SigConfig, error)            { return &ndn.SigConfig{Type: ndn.SignatureDigestSha256}, nil }
func (verifSigner) EstimateSize() uint                          { return 32 }
func (verifSigner) ComputeSigValue(enc.Wire) ([]byte, error)    { return make([]byte, 32), nil }

// the two raw Data wires the harness feeds (onData does not parse them; it only hashes them for Interests that
// carry an implicit digest) and their digests
var verifC20Raws = [][]byte{{0x06, 0x00}, {0x06, 0x02, 0x07, 0x00}}

func verifC20Digest(k int) []byte {
	if k >= len(verifC20Raws) {
		return make([]byte, 32) // a digest no Data has
	}
	d := sha256.Sum256(verifC20Raws[k])
	return d[:]
}

type verifPend struct {
	digest      []byte // implicit digest requested (nil: none); the Interest name is name + this component
	name        enc.Name
	canBePrefix bool
	expressedAt time.Time
	lifetime    time.Duration
	results     []ndn.InterestResult
	dataNames   []enc.Name
	dataRaws    [][]byte
	resolvedAt  []time.Time
}

func verifC20Name(tag string, maxDepth int) enc.Name {
	d := 1 + verifChoice(tag+"len", maxDepth)
	n := make(enc.Name, d)
	for i := range n {
		c := "a"
		letters := verifParam("letters", 2)
		if verifC20Letters != 0 {
			letters = verifC20Letters
		}
		if letters > 1 && verifChoice(tag+"c", letters) == 1 {
			c = "b"
		}
		n[i] = enc.NewStringComponent(enc.TypeGenericNameComponent, c)
	}
	return n
}

func verifSatisfies(p *verifPend, data enc.Name, raw []byte) bool {
	if p.digest != nil {
		d := sha256.Sum256(raw)
		if !bytes.Equal(p.digest, d[:]) {
			return false
		}
	}
	if p.name.Equal(data) {
		return true
	}
	return p.canBePrefix && p.name.IsPrefix(data) && len(p.name) < len(data)
}

func (p *verifPend) fullName() enc.Name {
	if p.digest == nil {
		return p.name
	}
	return append(append(enc.Name{}, p.name...), enc.NewBytesComponent(enc.TypeImplicitSha256DigestComponent, p.digest))
}

func VerifC20_ExpressResolve() {
	verifC20Resolve(verifParam("pending", 2), verifParam("events", 3), verifParam("depth", 2), verifParam("reexpress", 0) != 0, false)
}

// the same with Interests that may carry an implicit digest (of one of the two raw Data wires the harness feeds, or of
// none), Nacks that may name a digest-bearing Interest, over the names /a, /a/a (Data also /a/a/a)
func VerifC20_ImplicitDigest() {
	verifC20Letters = 1
	verifC20Resolve(verifParam("dpending", 2), verifParam("devents", 2), 2, false, true)
}

var verifC20Letters = 0

// the same history universe with further Interests expressed in mid-history (a retry after a Nack or a timeout),
// over names of one component so that four events stay affordable
func VerifC20_ExpressResolveRetry() {
	verifC20Resolve(1, verifParam("retryevents", 4), 1, true, false)
}

func verifC20Resolve(maxPend, maxEvents, depth int, reexpress bool, digests bool) {
	face := dummy.NewDummyFace()
	timer := dummy.NewTimer()
	e := NewEngine(face, timer, verifSigner{}, func(enc.Name, enc.Wire, ndn.Signature) bool { return true })
	verifAssert(e != nil, "C20/setup")
	e.Start()
	var pend []*verifPend
	express := func() {
		p := &verifPend{name: verifC20Name("n", depth), canBePrefix: verifBool("cbp")}
		if digests {
			// the timing dimension is explored by the harnesses without digests
			p.lifetime = 4 * time.Second
		} else {
			p.lifetime = time.Duration(verifRange("lifetime", 1, 10000)) * time.Millisecond
		}
		p.expressedAt = timer.Now()
		if digests && verifBool("implicitDigest") {
			p.digest = verifC20Digest(verifChoice("digestOf", len(verifC20Raws)))
		}
		lt := p.lifetime
		pp := p
		err := e.Express(&ndn.EncodedInterest{Wire: enc.Wire{[]byte{0x05, 0x00}}, FinalName: p.fullName(),
			Config: &ndn.InterestConfig{CanBePrefix: p.canBePrefix, Lifetime: &lt}},
			func(a ndn.ExpressCallbackArgs) {
				pp.results = append(pp.results, a.Result)
				pp.resolvedAt = append(pp.resolvedAt, timer.Now())
				if a.Result == ndn.InterestResultData {
					pp.dataNames = append(pp.dataNames, a.Data.Name())
					pp.dataRaws = append(pp.dataRaws, a.RawData.Join())
				}
			})
		verifAssert(err == nil, "C20/express-ok")
		pend = append(pend, p)
	}
	np := 1 + verifChoice("npend", maxPend)
	for i := 0; i < np; i++ {
		express()
		if !digests && verifBool("gap") {
			timer.MoveForward(time.Duration(verifRange("gapms", 0, 10000)) * time.Millisecond)
		}
	}
	nev := verifChoice("nevents", maxEvents+1)
	for i := 0; i < nev; i++ {
		nkinds := 3
		if digests {
			nkinds = 2 // Data, Nack
		}
		if reexpress && len(pend) < maxPend+1 {
			nkinds = 4 // a further Interest is expressed in mid-history (e.g. a retry after a Nack)
		}
		switch verifChoice("event", nkinds) {
		case 3:
			express()
		case 0: // Data arrives
			dn := verifC20Name("d", depth+1)
			before := make([]int, len(pend))
			for j, p := range pend {
				before[j] = len(p.results)
			}
			raw := verifC20Raws[0]
			if digests {
				raw = verifC20Raws[verifChoice("raw", len(verifC20Raws))]
			}
			verifNoPanic("C20/onData-no-panic", func() { e.onData(&spec.Data{NameV: dn}, nil, enc.Wire{raw}, nil) })
			for j, p := range pend {
				if before[j] == 0 && verifSatisfies(p, dn, raw) {
					verifAssert(len(p.results) == 1 && p.results[0] == ndn.InterestResultData, "C20/data-resolves-every-pending-interest-it-satisfies")
				}
				if !verifSatisfies(p, dn, raw) {
					verifAssert(len(p.results) == before[j], "C20/data-resolves-only-interests-it-satisfies")
				}
			}
		case 1: // Nack for a name
			nn := verifC20Name("k", depth)
			if digests && verifBool("nackWithDigest") {
				// the Nack names an Interest that carried an implicit digest
				nn = append(nn, enc.NewBytesComponent(enc.TypeImplicitSha256DigestComponent, verifC20Digest(verifChoice("nackDigestOf", len(verifC20Raws)))))
			}
			before := make([]int, len(pend))
			for j, p := range pend {
				before[j] = len(p.results)
			}
			verifNoPanic("C20/onNack-no-panic", func() { e.onNack(nn, spec.NackReasonNoRoute) })
			for j, p := range pend {
				if before[j] == 0 && p.fullName().Equal(nn) {
					verifAssert(len(p.results) == 1 && p.results[0] == ndn.InterestResultNack, "C20/nack-resolves-pending-interest-of-that-name")
				}
				if !p.fullName().Equal(nn) {
					verifAssert(len(p.results) == before[j], "C20/nack-resolves-only-that-name")
				}
			}
		case 2: // clock advance
			verifNoPanic("C20/timer-no-panic", func() { timer.MoveForward(time.Duration(verifRange("advms", 0, 20000)) * time.Millisecond) })
		}
	}
	// quiescence: move beyond every deadline (twice, the dummy timer fires strictly-before events)
	verifNoPanic("C20/timer-no-panic", func() {
		timer.MoveForward(40 * time.Second)
		timer.MoveForward(time.Second)
	})
	for _, p := range pend {
		verifAssert(len(p.results) >= 1, "C20/every-interest-resolves")
		verifAssert(len(p.results) <= 1, "C20/callback-at-most-once")
		for i, r := range p.results {
			if r == ndn.InterestResultData {
				verifAssert(verifSatisfies(p, p.dataNames[0], p.dataRaws[0]), "C20/resolved-only-by-satisfying-data")
			}
			if r == ndn.InterestResultTimeout {
				verifAssert(!p.resolvedAt[i].Before(p.expressedAt.Add(p.lifetime)), "C20/timeout-not-before-lifetime")
			}
		}
	}
}

// Incoming Interests go to the handler at the longest matching prefix; replies only before the deadline.
func VerifC20_HandlerDispatch() {
	depth := verifParam("depth", 2)
	face := dummy.NewDummyFace()
	timer := dummy.NewTimer()
	e := NewEngine(face, timer, verifSigner{}, func(enc.Name, enc.Wire, ndn.Signature) bool { return true })
	e.Start()
	nh := 1 + verifChoice("nhandlers", verifParam("handlers", 2))
	var prefixes []enc.Name
	var attached []bool
	called := make([]int, nh)
	var replies []func(enc.Wire) error
	for i := 0; i < nh; i++ {
		p := verifC20Name("h", depth)
		idx := i
		err := e.AttachHandler(p, func(a ndn.InterestHandlerArgs) {
			called[idx]++
			replies = append(replies, a.Reply)
		})
		dup := false
		for j, q := range prefixes {
			if attached[j] && q.Equal(p) {
				dup = true
			}
		}
		verifAssert((err != nil) == dup, "C20/attach-rejects-duplicate-prefix-only")
		prefixes = append(prefixes, p)
		attached = append(attached, err == nil)
	}
	if verifBool("detach") {
		k := verifChoice("which", nh)
		if attached[k] {
			verifNoPanic("C20/detach-no-panic", func() { e.DetachHandler(prefixes[k]) })
			attached[k] = false
		}
	}
	iname := verifC20Name("i", depth+1)
	lt := time.Duration(verifRange("lifetime", 1, 10000)) * time.Millisecond
	verifNoPanic("C20/onInterest-no-panic", func() {
		e.onInterest(ndn.InterestHandlerArgs{Interest: &spec.Interest{NameV: iname, InterestLifetimeV: &lt}})
	})
	// expected: the attached handler with the longest prefix of iname
	best := -1
	for j, p := range prefixes {
		if attached[j] && p.IsPrefix(iname) && (best < 0 || len(p) > len(prefixes[best])) {
			best = j
		}
	}
	for j := range prefixes {
		want := 0
		if j == best {
			want = 1
		}
		verifAssert(called[j] == want, "C20/interest-goes-to-longest-matching-prefix-handler")
	}
	if len(replies) == 1 {
		adv := time.Duration(verifRange("advms", 0, 20000)) * time.Millisecond
		timer.MoveForward(adv)
		sent0 := 0
		for {
			if _, err := face.Consume(); err != nil {
				break
			}
			sent0++
		}
		err := replies[0](enc.Wire{[]byte{0x06, 0x00}})
		_, cerr := face.Consume()
		sent := cerr == nil
		if adv > lt {
			verifAssert(!sent && err != nil, "C20/no-reply-after-deadline")
		}
		if adv < lt {
			verifAssert(sent && err == nil, "C20/reply-before-deadline-is-sent")
		}
	}
}
