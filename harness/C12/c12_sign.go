//verif:dir std/security
package security

import (
	"time"

	enc "github.com/named-data/ndnd/std/encoding"
	"github.com/named-data/ndnd/std/ndn"
	spec "github.com/named-data/ndnd/std/ndn/spec_2022"
)

// C12: the bytes handed to the signer = the signed portion reported by the encoder = the signed portion
// reconstructed by the decoder; the matching validator accepts; any single-bit flip inside the signed
// portion / signature value / parameters makes decoding fail or the validator reject.
// SHA-256 / HMAC are ideal (collision-free) functions; ECDSA/RSA are represented by a stub signer of
// the same shape (type, key locator, estimate) whose signature bytes are arbitrary.

type verifStubSigner struct {
	typ     ndn.SigType
	keyName enc.Name
	est     uint
	sig     []byte
	covered *[]byte
}

func (s verifStubSigner) SigInfo() (*ndn.SigConfig, error) {
	return &ndn.SigConfig{Type: s.typ, KeyName: s.keyName}, nil
}
func (s verifStubSigner) EstimateSize() uint { return s.est }
func (s verifStubSigner) ComputeSigValue(c enc.Wire) ([]byte, error) {
	*s.covered = c.Join()
	return s.sig, nil
}

type verifTimer12 struct{}

func (verifTimer12) Now() time.Time                              { return time.Unix(1700000000, 0) }
func (verifTimer12) Sleep(time.Duration)                         {}
func (verifTimer12) Schedule(time.Duration, func()) func() error { return func() error { return nil } }
func (verifTimer12) Nonce() []byte                               { return []byte{1, 2, 3, 4, 5, 6, 7, 8} }

// packet contents: symbolic bytes (thorough) or a fixed representative (quick); the flipped bit is always symbolic
func verifC12Bytes(tag string, n int) []byte {
	if verifParam("symcontent", 0) != 0 {
		return verifBytesN(tag, n)
	}
	b := make([]byte, n)
	for i := range b {
		b[i] = byte(0x41 + i)
	}
	return b
}

func verifC12NameT() enc.Name {
	n := make(enc.Name, 1+verifChoice("ncomp", 2))
	for i := range n {
		n[i] = enc.Component{Typ: enc.TypeGenericNameComponent, Val: verifC12Bytes("comp", 1+verifChoice("complen", 2))}
	}
	return n
}

func verifC12Name() enc.Name {
	n := make(enc.Name, 1+verifChoice("ncomp", 2))
	for i := range n {
		n[i] = enc.Component{Typ: enc.TypeGenericNameComponent, Val: verifBytesN("comp", 1+verifChoice("complen", 2))}
	}
	return n
}

// Data signed with a stub of each asymmetric signer shape: covered bytes agree on all three sides.
func VerifC12_DataCoveredAgreement() {
	verifC12DataCovered(false)
}

// one signer shape, a two-component name, and the segment boundary on the first byte of every top-level element and of
// every name component (a reader that mislocates a range starting exactly on a segment start shows here)
func VerifC12_DataSegmentBoundaries() {
	verifC12DataCovered(true)
}

func verifC12DataCovered(boundaries bool) {
	name := verifC12Name()
	shapes := []struct {
		typ ndn.SigType
		est uint
	}{{ndn.SignatureSha256WithEcdsa, 72}, {ndn.SignatureSha256WithRsa, 256}, {ndn.SignatureEd25519, 64}, {ndn.SignatureHmacWithSha256, 32}}
	var sh struct {
		typ ndn.SigType
		est uint
	}
	if boundaries {
		verifAssume(len(name) == 2 && len(name[0].Val) == 1 && len(name[1].Val) == 2)
		sh = shapes[2]
	} else {
		sh = shapes[verifChoice("shape", len(shapes))]
	}
	var keyName enc.Name
	if verifBool("keyLocator") {
		keyName, _ = enc.NameFromStr("/key")
	}
	// actual signature length from a boundary list (<= estimate; both sides of the 1/3-byte length form), opaque bytes
	lens := []int{1, 32, int(sh.est) - 1, int(sh.est)}
	if sh.est > 253 {
		lens = append(lens, 252, 253)
	}
	if boundaries {
		lens = lens[len(lens)-1:]
	}
	sig := verifBytesUF("sig", lens[verifChoice("siglen", len(lens))])
	var handed []byte
	signer := verifStubSigner{typ: sh.typ, keyName: keyName, est: sh.est, sig: sig, covered: &handed}
	nclen := 3
	if boundaries {
		nclen = 2
	}
	content := enc.Wire{verifBytesN("content", verifChoice("clen", nclen))}
	fresh := time.Duration(verifRange("fresh", 0, 1<<30)) * time.Millisecond
	var ed *ndn.EncodedData
	var err error
	verifNoPanic("C12/data/make-no-panic", func() {
		ed, err = spec.Spec{}.MakeData(name, &ndn.DataConfig{Freshness: &fresh}, content, signer)
	})
	verifAssert(err == nil && ed != nil, "C12/data/make-succeeds")
	wire := ed.Wire.Join()
	verifAssertBytesEq(ed.SigCovered.Join(), handed, "C12/data/encoder-reports-the-bytes-it-handed-to-the-signer")
	check := func(r enc.ParseReader, label string) {
		var d ndn.Data
		var cov enc.Wire
		var perr error
		verifNoPanic("C12/data/read-no-panic", func() { d, cov, perr = spec.Spec{}.ReadData(r) })
		verifAssert(perr == nil && d != nil, label+"/decodes")
		if perr != nil || d == nil {
			return
		}
		verifAssertBytesEq(cov.Join(), handed, label+"/decoder-reconstructs-the-signed-portion")
		verifAssertBytesEq(d.Signature().SigValue(), sig, label+"/decoded-signature-value-is-what-the-signer-returned")
		verifAssert(d.Signature().SigType() == sh.typ, label+"/decoded-signature-type")
		verifAssert(d.Name().Equal(name), label+"/decoded-name")
		verifAssertBytesEq(d.Content().Join(), content.Join(), label+"/decoded-content")
	}
	check(enc.NewBufferReader(wire), "C12/data/contiguous")
	// segment boundary from a list of positions: ends, inside the header, around the signature element
	cuts := []int{0, 1, 3, len(wire) / 2, len(wire) - len(sig) - 2, len(wire) - len(sig), len(wire) - 1, len(wire)}
	if boundaries {
		cuts = verifC12Boundaries(wire)
	}
	cut := cuts[verifChoice("cut", len(cuts))]
	if cut < 0 {
		cut = 0
	}
	check(enc.NewWireReader(enc.Wire{wire[:cut], wire[cut:]}), "C12/data/segmented")
}

// offsets of the first byte of every top-level element of a packet and of every component of its Name
// (type and length octets of a packet built by the encoder are concrete; values may be symbolic)
func verifC12Boundaries(wire []byte) []int {
	var out []int
	hdr := func(p int) (typ, l, n int) { // 1-byte types; 1- or 3-byte lengths
		typ = int(wire[p])
		if wire[p+1] == 0xfd {
			return typ, int(wire[p+2])<<8 | int(wire[p+3]), 4
		}
		return typ, int(wire[p+1]), 2
	}
	if len(wire) < 2 {
		return out
	}
	_, _, n0 := hdr(0)
	for p := n0; p+1 < len(wire); {
		out = append(out, p)
		typ, l, n := hdr(p)
		if typ == 0x07 {
			for q := p + n; q+1 < p+n+l; {
				out = append(out, q)
				_, cl, cn := hdr(q)
				q += cn + cl
			}
		}
		p += n + l
	}
	return out
}

// SHA-256 and HMAC signed Data: validator accepts the original and rejects every single-bit flip
// inside the signed portion or the signature value.
func VerifC12_DataTamper() {
	name := verifC12NameT()
	content := enc.Wire{verifC12Bytes("content", 1+verifChoice("clen", 2))}
	useHmac := verifBool("hmac")
	key := []byte("0123456789abcdef")
	var signer ndn.Signer = NewSha256Signer()
	if useHmac {
		kn, _ := enc.NameFromStr("/k")
		signer = NewHmacSigner(kn, key, false, 0)
	}
	ed, err := spec.Spec{}.MakeData(name, &ndn.DataConfig{}, content, signer)
	verifAssert(err == nil, "C12/tamper/make-succeeds")
	wire := ed.Wire.Join()
	validate := func(w []byte) (decoded, valid bool) {
		d, cov, perr := spec.Spec{}.ReadData(enc.NewBufferReader(w))
		if perr != nil {
			return false, false
		}
		if useHmac {
			return true, HmacValidate(cov, d.Signature(), key)
		}
		return true, Sha256Validate(cov, d.Signature())
	}
	dec, ok := validate(wire)
	verifAssert(dec && ok, "C12/tamper/untampered-packet-verifies")
	// signed portion starts after the outer TL and ends with the signature value (last bytes of the packet)
	_, n1 := enc.ParseTLNum(wire)
	_, n2 := enc.ParseTLNum(wire[n1:])
	start := n1 + n2
	pos := start + verifChoice("pos", len(wire)-start) // every byte position (enumerated), symbolic bit
	bit := uint(verifRange("bit", 0, 7))
	// the SignatureValue TL header (2 bytes before the 32-byte value) is neither signed portion nor value
	verifAssume(pos != len(wire)-34 && pos != len(wire)-33)
	t := make([]byte, len(wire))
	copy(t, wire)
	t[pos] ^= 1 << bit
	var d2, ok2 bool
	verifNoPanic("C12/tamper/no-panic", func() { d2, ok2 = validate(t) })
	verifAssert(!d2 || !ok2, "C12/tamper/single-bit-flip-in-signed-portion-or-signature-is-rejected")
}

// Interest with parameters: the parameters digest is present, last and correct; tampering the
// parameters or the digest makes decoding fail.
func VerifC12_InterestParams() {
	name := verifC12NameT()
	param := enc.Wire{verifC12Bytes("param", 1+verifChoice("plen", 2))}
	signed := verifBool("signed")
	var signer ndn.Signer
	if signed {
		signer = NewSha256IntSigner(verifTimer12{})
	}
	lt := 4 * time.Second
	var ei *ndn.EncodedInterest
	var err error
	verifNoPanic("C12/interest/make-no-panic", func() {
		ei, err = spec.Spec{}.MakeInterest(name, &ndn.InterestConfig{Lifetime: &lt}, param, signer)
	})
	verifAssert(err == nil && ei != nil, "C12/interest/make-succeeds")
	fn := ei.FinalName
	verifAssert(len(fn) == len(name)+1 && fn[len(fn)-1].Typ == enc.TypeParametersSha256DigestComponent && len(fn[len(fn)-1].Val) == 32, "C12/interest/parameters-digest-is-the-last-name-component")
	wire := ei.Wire.Join()
	i, cov, perr := spec.Spec{}.ReadInterest(enc.NewBufferReader(wire))
	verifAssert(perr == nil && i != nil, "C12/interest/decodes-with-correct-digest")
	if perr != nil {
		return
	}
	verifAssert(i.Name().Equal(fn), "C12/interest/decoded-name-is-the-final-name")
	if signed {
		verifAssertBytesEq(cov.Join(), ei.SigCovered.Join(), "C12/interest/decoder-reconstructs-the-signed-portion")
		verifAssert(Sha256Validate(cov, i.Signature()), "C12/interest/validator-accepts")
	}
	// flip one bit anywhere after the outer header
	_, n1 := enc.ParseTLNum(wire)
	_, n2 := enc.ParseTLNum(wire[n1:])
	pos := n1 + n2 + verifChoice("pos", len(wire)-n1-n2) // every byte position (enumerated), symbolic bit
	bit := uint(verifRange("bit", 0, 7))
	t := make([]byte, len(wire))
	copy(t, wire)
	t[pos] ^= 1 << bit
	var i2 ndn.Interest
	var cov2 enc.Wire
	var perr2 error
	verifNoPanic("C12/interest/tamper-no-panic", func() { i2, cov2, perr2 = spec.Spec{}.ReadInterest(enc.NewBufferReader(t)) })
	if perr2 == nil && i2 != nil {
		// decoding succeeded: then the flipped bit was outside parameters/digest/signed portion, or the validator rejects
		sameParams := verifBytesSame12(i2.AppParam().Join(), param.Join())
		sameName := i2.Name().Equal(fn)
		if signed {
			verifAssert(!Sha256Validate(cov2, i2.Signature()) || (sameParams && sameName), "C12/interest/tampered-signed-interest-is-rejected")
		} else {
			verifAssert(sameParams && verifDigestPart(i2, fn), "C12/interest/tampered-parameters-or-digest-are-rejected-on-decode")
		}
	}
}

func verifDigestPart(i ndn.Interest, fn enc.Name) bool {
	n := i.Name()
	// the parameters digest (last component) is intact; other name components are not covered by it
	return len(n) > 0 && n[len(n)-1].Equal(fn[len(fn)-1])
}

func verifBytesSame12(a, b []byte) bool {
	if len(a) != len(b) {
		return false
	}
	for i := range a {
		if a[i] != b[i] {
			return false
		}
	}
	return true
}

// Interest signed with a stub of each asymmetric signer shape: the bytes handed to the signer, the signed portion
// reported by the encoder and the one reconstructed by the decoder agree; the signature value decodes to what the
// signer returned - also when it is shorter than the estimate and the total length crosses a length-form boundary
// (application parameters of symbolic length 0..300 with opaque contents).
func VerifC12_InterestCoveredAgreement() {
	name, _ := enc.NameFromStr("/A") // the name plays no role in the length arithmetic under test
	shapes := []struct {
		typ ndn.SigType
		est uint
	}{{ndn.SignatureSha256WithEcdsa, 72}, {ndn.SignatureEd25519, 64}, {ndn.SignatureHmacWithSha256, 32}} // the encoder refuses estimates >= 253 (RSA) for Interests
	sh := shapes[verifChoice("shape", len(shapes))]
	keyName, _ := enc.NameFromStr("/key") // the Interest encoder insists on a key locator for these signature types
	lens := []int{int(sh.est) - 2, int(sh.est) - 1, int(sh.est)}
	if sh.est > 253 {
		lens = append(lens, 252, 253)
	}
	sig := verifBytesUF("sig", lens[verifChoice("siglen", len(lens))])
	var handed []byte
	signer := verifStubSigner{typ: sh.typ, keyName: keyName, est: sh.est, sig: sig, covered: &handed}
	lt := 4 * time.Second
	// parameter lengths: boundary values of the parameters' own length field, and the lengths that put the whole
	// Interest within 4 bytes of the 252/253 length-form boundary (found by encoding a probe Interest first)
	probeSigner := verifStubSigner{typ: sh.typ, keyName: keyName, est: sh.est, sig: make([]byte, sh.est), covered: new([]byte)}
	probe, perr0 := spec.Spec{}.MakeInterest(name, &ndn.InterestConfig{Lifetime: &lt}, enc.Wire{make([]byte, 100)}, probeSigner)
	verifAssert(perr0 == nil && probe != nil, "C12/sinterest/probe")
	atBoundary := 100 + 255 - len(probe.Wire.Join())
	applens := []int{1, 2, 252, 253, 254, 300}
	for d := -6; d <= 4; d++ {
		if atBoundary+d > 0 {
			applens = append(applens, atBoundary+d)
		}
	}
	app := enc.Wire{verifBytesUF("app", applens[verifChoice("applen", len(applens))])}
	var ei *ndn.EncodedInterest
	var err error
	verifNoPanic("C12/sinterest/make-no-panic", func() {
		ei, err = spec.Spec{}.MakeInterest(name, &ndn.InterestConfig{Lifetime: &lt}, app, signer)
	})
	verifAssert(err == nil && ei != nil, "C12/sinterest/make-succeeds")
	wire := ei.Wire.Join()
	verifAssertBytesEq(ei.SigCovered.Join(), handed, "C12/sinterest/encoder-reports-the-bytes-it-handed-to-the-signer")
	var i ndn.Interest
	var cov enc.Wire
	var perr error
	verifNoPanic("C12/sinterest/read-no-panic", func() { i, cov, perr = spec.Spec{}.ReadInterest(enc.NewBufferReader(wire)) })
	verifAssert(perr == nil && i != nil, "C12/sinterest/decodes")
	if perr != nil || i == nil {
		return
	}
	verifAssertBytesEq(cov.Join(), handed, "C12/sinterest/decoder-reconstructs-the-signed-portion")
	verifAssertBytesEq(i.Signature().SigValue(), sig, "C12/sinterest/decoded-signature-value-is-what-the-signer-returned")
	verifAssert(i.Signature().SigType() == sh.typ, "C12/sinterest/decoded-signature-type")
	verifAssertBytesEq(i.AppParam().Join(), app.Join(), "C12/sinterest/decoded-parameters")
	verifObserve("wirelen", len(wire))
	// the same Interest presented in two segments cut at an element boundary (or one byte before/after the first)
	b := verifC12Boundaries(wire)
	cuts := append([]int{1, 3, len(wire) - 1}, b...)
	cut := cuts[verifChoice("cut", len(cuts))]
	var i2 ndn.Interest
	var cov2 enc.Wire
	verifNoPanic("C12/sinterest/read-no-panic", func() {
		i2, cov2, perr = spec.Spec{}.ReadInterest(enc.NewWireReader(enc.Wire{wire[:cut], wire[cut:]}))
	})
	verifAssert(perr == nil && i2 != nil, "C12/sinterest/segmented/decodes")
	if perr != nil || i2 == nil {
		return
	}
	verifAssertBytesEq(cov2.Join(), handed, "C12/sinterest/segmented/decoder-reconstructs-the-signed-portion")
	verifAssertBytesEq(i2.Signature().SigValue(), sig, "C12/sinterest/segmented/decoded-signature-value-is-what-the-signer-returned")
}
