//verif:dir std/security
package security

import (
	"crypto/ecdsa"
	"crypto/elliptic"
	"crypto/rand"
	"crypto/rsa"
	"math/big"
	"time"

	enc "github.com/named-data/ndnd/std/encoding"
	basic_engine "github.com/named-data/ndnd/std/engine/basic"
	"github.com/named-data/ndnd/std/ndn"
)

// C12, the shipped signers and their validators: what a shipped signer announces in SigInfo and computes in
// ComputeSigValue must be accepted by the matching validator for the bytes it was asked to sign.  SHA-256 and HMAC
// are ideal hashes (tokens).  The public-key arithmetic is not encoded: symbolically the verification primitives
// (ecdsa.VerifyASN1, rsa.VerifyPKCS1v15) are stubbed as "verifies", so that what is decided is the plumbing around
// them - the signature type a signer announces against the type its validator admits, and the bytes handed over;
// natively (witness and counterexample replays) real keys are generated and the real arithmetic runs.

type verifC12Sig struct {
	typ ndn.SigType
	val []byte
}

func (s verifC12Sig) SigType() ndn.SigType                 { return s.typ }
func (s verifC12Sig) KeyName() enc.Name                    { return nil }
func (s verifC12Sig) SigNonce() []byte                     { return nil }
func (s verifC12Sig) SigTime() *time.Time                  { return nil }
func (s verifC12Sig) SigSeqNum() *uint64                   { return nil }
func (s verifC12Sig) Validity() (a, b *time.Time)          { return nil, nil }
func (s verifC12Sig) SigValue() []byte                     { return s.val }

func VerifC12_ShippedSignersAndValidators() {
	covered := enc.Wire{verifBytesN("covered1", 3), verifBytesN("covered2", 2)}
	keyName, _ := enc.NameFromStr("/key")
	forCert := verifBool("forCert")
	switch verifChoice("signer", 4) {
	case 0: // DigestSha256
		s := NewSha256Signer()
		cfg, err := s.SigInfo()
		verifAssert(err == nil && cfg != nil, "C12/shipped/siginfo")
		v, err := s.ComputeSigValue(covered)
		verifAssert(err == nil, "C12/shipped/sign")
		verifAssert(Sha256Validate(covered, verifC12Sig{cfg.Type, v}), "C12/shipped/matching-validator-accepts-the-signers-own-packet")
	case 1: // HMAC
		key := verifBytesN("hmackey", 4)
		s := NewHmacSigner(keyName, key, forCert, time.Hour)
		cfg, err := s.SigInfo()
		verifAssert(err == nil && cfg != nil, "C12/shipped/siginfo")
		v, err := s.ComputeSigValue(covered)
		verifAssert(err == nil, "C12/shipped/sign")
		verifAssert(HmacValidate(covered, verifC12Sig{cfg.Type, v}, key), "C12/shipped/matching-validator-accepts-the-signers-own-packet")
	case 2: // ECDSA
		var s ndn.Signer
		var pub *ecdsa.PublicKey
		var v []byte
		if verifSymbolic() {
			s = &eccSigner{timer: basic_engine.Timer{}, keyLocatorName: keyName, keyLen: 72, forCert: forCert, certExpireTime: time.Hour}
			v = verifBytesN("sigvalue", 8)
			pub = &ecdsa.PublicKey{} // a key object is present; its arithmetic is behind the stub
		} else {
			k, _ := ecdsa.GenerateKey(elliptic.P256(), rand.Reader)
			s = NewEccSigner(forCert, false, time.Hour, k, keyName)
			pub = &k.PublicKey
			v, _ = s.ComputeSigValue(covered)
			_ = verifBytesN("sigvalue", 8)
		}
		cfg, err := s.SigInfo()
		verifAssert(err == nil && cfg != nil, "C12/shipped/siginfo")
		verifAssert(EcdsaValidate(covered, verifC12Sig{cfg.Type, v}, pub), "C12/shipped/matching-validator-accepts-the-signers-own-packet")
	case 3: // RSA
		var s ndn.Signer
		var pub *rsa.PublicKey
		var v []byte
		if verifSymbolic() {
			s = &rsaSigner{timer: basic_engine.Timer{}, keyLocatorName: keyName, keyLen: 128, forCert: forCert, certExpireTime: time.Hour}
			// a well-formed 1024-bit public key object and a signature of the matching length; the arithmetic is behind the stub
			words := make([]big.Word, 16)
			words[15] = 1 << 63
			words[0] = 1
			pub = &rsa.PublicKey{N: new(big.Int).SetBits(words), E: 65537}
			v = verifBytesN("sigvalue", 128)
		} else {
			k, _ := rsa.GenerateKey(rand.Reader, 1024)
			s = NewRsaSigner(forCert, false, time.Hour, k, keyName)
			pub = &k.PublicKey
			v, _ = s.ComputeSigValue(covered)
			_ = verifBytesN("sigvalue", 128)
		}
		cfg, err := s.SigInfo()
		verifAssert(err == nil && cfg != nil, "C12/shipped/siginfo")
		verifAssert(RsaValidate(covered, verifC12Sig{cfg.Type, v}, pub), "C12/shipped/matching-validator-accepts-the-signers-own-packet")
	}
}
