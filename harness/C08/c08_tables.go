//verif:dir fw/table
package table

import (
	"time"

	enc "github.com/named-data/ndnd/std/encoding"
	spec "github.com/named-data/ndnd/std/ndn/spec_2022"
)

// C08 (tables, white box): name trees hold nothing beyond what live entries require.

func verifC08Name(tag string, depth int) enc.Name {
	d := 1 + verifChoice(tag+"len", depth)
	n := make(enc.Name, d)
	for i := range n {
		n[i] = enc.Component{Typ: enc.TypeGenericNameComponent, Val: verifBytesN(tag, 1)}
	}
	return n
}

// every node of the PIT/CS tree lies on the path to a live CS entry or PIT entry
func verifC08NoDeadBranch(n *pitCsTreeNode) bool {
	if len(n.children) == 0 {
		return n.parent == nil || n.csEntry != nil || len(n.pitEntries) > 0
	}
	for _, c := range n.children {
		if !verifC08NoDeadBranch(c) {
			return false
		}
	}
	return true
}

func verifC08CountCs(n *pitCsTreeNode) int {
	k := 0
	if n.csEntry != nil {
		k = 1
	}
	for _, c := range n.children {
		k += verifC08CountCs(c)
	}
	return k
}

func VerifC08_PitCsTree() {
	csReplacementPolicy = "lru"
	csAdmit, csServe = true, true
	csCapacity = verifChoice("capacity", 3)
	expired := 0
	p := NewPitCS(func(PitEntry) { expired++ })
	depth := verifParam("depth", 2)
	k := verifParam("ops", 3)
	for i := 0; i < k; i++ {
		switch verifChoice("op", 3) {
		case 0: // pending Interest
			n := verifC08Name("i", depth)
			nonce := uint32(verifRange("nonce", 0, 3))
			lt := time.Duration(verifRange("lifetime", 1, 4000)) * time.Millisecond
			in := &spec.Interest{NameV: n, CanBePrefixV: verifBool("cbp"), NonceV: &nonce, InterestLifetimeV: &lt}
			e, dup := p.InsertInterest(in, nil, 1+uint64(verifChoice("face", 2)))
			if !dup {
				e.InsertInRecord(in, 1, nil)
				UpdateExpirationTimer(e)
			} else {
				UpdateExpirationTimer(e)
			}
		case 1: // cached Data (may evict)
			n := verifC08Name("d", depth)
			p.InsertData(&spec.Data{NameV: n}, []byte{0x06, 0x00})
		case 2:
			verifAdvance(int64(verifRange("adv", 0, 5000)) * int64(time.Millisecond))
			p.Update()
		}
	}
	for i := 0; i < 2; i++ {
		verifAdvance(int64(5 * time.Second))
		verifNoPanic("C08/reaper-no-panic", func() { p.Update() })
	}
	verifAssert(p.PitSize() == 0 && p.nPitEntries == 0, "C08/pit-empty-after-all-lifetimes-elapsed")
	verifAssert(len(p.pitTokenMap) == 0, "C08/pit-token-map-empty")
	verifAssert(p.pitExpiryQueue.Len() == 0, "C08/pit-expiry-queue-empty")
	verifAssert(p.CsSize() == verifC08CountCs(p.root) && p.CsSize() == len(p.csMap), "C08/reported-cs-size-is-true")
	verifAssert(p.CsSize() <= csCapacity, "C08/cs-within-capacity")
	verifAssert(verifC08NoDeadBranch(p.root), "C08/name-tree-has-no-dead-branch")
}

func verifC08FibLeafOK(n *fibStrategyTreeEntry) bool {
	if len(n.children) == 0 {
		return n.parent == nil || len(n.nexthops) > 0 || n.strategy != nil
	}
	for _, c := range n.children {
		if !verifC08FibLeafOK(c) {
			return false
		}
	}
	return true
}

// FIB (name tree and hash table) and RIB hold nothing beyond what their live entries require
func VerifC08_FibRibMinimal() {
	depth := verifParam("fdepth", 3)
	tree := verifChoice("impl", 2) == 0
	if tree {
		newFibStrategyTableTree()
	} else {
		newFibStrategyTableHashTable(uint16(1 + verifChoice("m", 2)))
	}
	n1 := verifC08Name("a", depth)
	n2 := verifC08Name("b", depth)
	viaRib := verifBool("viaRib")
	if viaRib {
		Rib.AddEncRoute(n1, &Route{FaceID: 1, Cost: 1, Flags: verifRange("flags", 0, 3)})
		Rib.AddEncRoute(n2, &Route{FaceID: 2, Cost: 1, Flags: RouteFlagChildInherit})
		Rib.RemoveRouteEnc(n1, 1, 0)
		Rib.RemoveRouteEnc(n2, 2, 0)
		verifAssert(len(Rib.children) == 0, "C08/rib-tree-empty-after-all-routes-removed")
	} else {
		FibStrategyTable.InsertNextHopEnc(n1, 1, 1)
		FibStrategyTable.InsertNextHopEnc(n2, 2, 1)
		FibStrategyTable.RemoveNextHopEnc(n1, 1)
		FibStrategyTable.RemoveNextHopEnc(n2, 2)
	}
	verifAssert(len(FibStrategyTable.GetAllFIBEntries()) == 0, "C08/fib-lists-nothing-after-all-next-hops-removed")
	if tree {
		f := FibStrategyTable.(*FibStrategyTree)
		verifAssert(verifC08FibLeafOK(f.root), "C08/fib-tree-has-no-dead-branch")
		verifAssert(len(f.root.children) == 0, "C08/fib-tree-empty-after-all-next-hops-removed")
	} else {
		h := FibStrategyTable.(*FibStrategyHashTable)
		verifAssert(len(h.realTable) == 1, "C08/fib-hashtable-holds-only-the-root")
		verifAssert(len(h.virtTable) == 0 && len(h.virtTableNames) == 0, "C08/fib-hashtable-virtual-tables-empty")
	}
}

func VerifC08_DeadNonceList() {
	deadNonceListLifetime = 6000 * time.Millisecond
	d := NewDeadNonceList()
	k := verifParam("nonces", 3)
	for i := 0; i < k; i++ {
		d.Insert(verifC08Name("n", 1), uint32(verifRange("nonce", 0, 3)))
		if verifBool("gap") {
			verifAdvance(int64(verifRange("adv", 0, 3000)) * int64(time.Millisecond))
		}
	}
	verifAdvance(int64(7 * time.Second))
	d.RemoveExpiredEntries()
	verifAssert(len(d.list) == 0 && d.expirationQueue.Len() == 0, "C08/dead-nonce-records-expire")
}
