//verif:dir fw/fw
package fw

import (
	"time"
)

// C08 (pipeline): after any short traffic history and a quiescent period longer than every lifetime,
// the PIT is empty and the reported sizes are true. Uses the forwarding rig of ../C01/fwrig.go.
func VerifC08_FwQuiescence() {
	r := verifNewRig(false, "C08")
	k := verifParam("packets", 2)
	for step := 0; step < k; step++ {
		switch verifChoice("kind", 3) {
		case 0:
			r.interest(r.genInterest(false), "C08")
		case 1:
			r.data(r.genData(false), "C08")
		case 2:
			verifAdvance(int64(verifRange("adv", 0, 5000)) * int64(time.Millisecond))
			r.th.pitCS.Update()
		}
	}
	verifC08Quiesce(r)
}

func verifC08Quiesce(r *verifRig) {
	// quiescence: every lifetime (<= 4 s) has elapsed; the reaper runs (several times, as its ticker would)
	for i := 0; i < 3; i++ {
		verifAdvance(int64(5 * time.Second))
		verifNoPanic("C08/reaper-no-panic", func() { r.th.pitCS.Update() })
	}
	verifAssert(r.th.pitCS.PitSize() == 0, "C08/pit-empty-after-all-lifetimes-elapsed")
	verifAssert(r.th.GetNumPitEntries() == 0, "C08/reported-pit-size-is-zero")
	// dead nonce records disappear after their lifetime (6 s by default)
	verifAdvance(int64(7 * time.Second))
	r.th.deadNonceList.RemoveExpiredEntries()
	for _, s := range r.log {
		if !s.isData {
			verifAssert(!r.th.deadNonceList.Find(s.name, s.nonce), "C08/dead-nonce-records-expire")
		}
	}
}

// longer histories as fixed shapes (I Interest, D Data, A clock advance + sweep), then quiescence:
// re-expression after expiry (same or different nonce), after satisfaction, aggregation then expiry
func VerifC08_Script_IAI()  { verifC08Quiesce(verifFwScript("C08", false, []string{"IAI"})) }
func VerifC08_Script_IDI()  { verifC08Quiesce(verifFwScript("C08", false, []string{"IDI"})) }
func VerifC08_Script_IIAI() { verifC08Quiesce(verifFwScript("C08", false, []string{"IIAI"})) }
func VerifC08_Script_IDAI() { verifC08Quiesce(verifFwScript("C08", false, []string{"IDAI"})) }

// one Data satisfying two PIT entries (or one), the satisfied entries are gone at the reaper's next run
func VerifC08_Script_IID() { verifC08Quiesce(verifFwScript("C08", false, []string{"IID"})) }
