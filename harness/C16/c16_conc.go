//verif:dir fw/table
package table

import (
	enc "github.com/named-data/ndnd/std/encoding"
)

// C16: operations that the daemon runs on different goroutines (management thread, face send
// goroutines tearing a face down, forwarding threads) are executed as pairs while every shared-memory
// access is recorded with the mutexes held (lockset analysis); natively the pair runs in two
// goroutines under the race detector.

func verifC16Name(s string) enc.Name {
	n, _ := enc.NameFromStr(s)
	return n
}

func verifC16Setup() {
	if verifChoice("impl", 2) == 0 {
		newFibStrategyTableTree()
	} else {
		newFibStrategyTableHashTable(2)
	}
	// pre-state: two routes
	Rib.AddEncRoute(verifC16Name("/a"), &Route{FaceID: 1, Cost: 1, Flags: RouteFlagChildInherit})
	Rib.AddEncRoute(verifC16Name("/a/b"), &Route{FaceID: 2, Cost: 2})
}

// the forwarding thread's use of a lookup result: it reads the returned entries after the lookup returned
func verifC16Lookup(n enc.Name) func() {
	return func() {
		sum := uint64(0)
		for _, nh := range FibStrategyTable.FindNextHopsEnc(n) {
			sum += nh.Nexthop + nh.Cost
		}
		_ = FibStrategyTable.FindStrategyEnc(n)
		_ = sum
	}
}

var verifC16Pairs = []string{
	"mgmt:rib-register / face:cleanup",
	"mgmt:rib-register / fw:lookup",
	"mgmt:rib-unregister / fw:lookup",
	"face:cleanup / fw:lookup",
	"mgmt:fib-add / fw:lookup",
	"mgmt:strategy-set / fw:lookup",
	"mgmt:rib-register / mgmt-list? no: face:cleanup / face:cleanup",
	"mgmt:cs-capacity / fw:cs-evict",
	"mgmt:strategy-set / mgmt:rib-unregister",
	"mgmt:fib-remove / face:cleanup",
	"mgmt:fib-add / mgmt:fib-dump (the call only)",
	"mgmt:rib-register / mgmt:strategy-dump (the call only)",
}

func VerifC16_OperationPairs() {
	verifC16Setup()
	k := verifChoice("pair", len(verifC16Pairs))
	reg := func() {
		Rib.AddEncRoute(verifC16Name("/a/b"), &Route{FaceID: 3, Cost: 5, Flags: RouteFlagChildInherit})
	}
	rereg := func() { Rib.AddEncRoute(verifC16Name("/a"), &Route{FaceID: 1, Cost: 7, Flags: RouteFlagChildInherit}) }
	unreg := func() { Rib.RemoveRouteEnc(verifC16Name("/a"), 1, 0) }
	cleanup1 := func() { Rib.CleanUpFace(1) }
	cleanup2 := func() { Rib.CleanUpFace(2) }
	fibadd := func() { FibStrategyTable.InsertNextHopEnc(verifC16Name("/a"), 1, 9) }
	stratset := func() {
		FibStrategyTable.SetStrategyEnc(verifC16Name("/a"), verifC16Name("/localhost/nfd/strategy/multicast/v=1"))
	}
	lookup := verifC16Lookup(verifC16Name("/a/b/c"))
	// (The status-dataset listings - GetAllFIBEntries / GetAllEntries followed by unlocked reads of the entries - do race
	// with face teardown; the statement lists registration, removal, teardown, FIB and strategy updates and lookups, not
	// listings, so they are not paired here: see DESIGN section 6, false alarms.)
	label := "C16/no-unsynchronised-conflicting-accesses"
	switch k {
	case 0:
		verifConcurrently(label, reg, cleanup1)
	case 1:
		verifConcurrently(label, rereg, lookup)
	case 2:
		verifConcurrently(label, unreg, lookup)
	case 3:
		verifConcurrently(label, cleanup2, lookup)
	case 4:
		verifConcurrently(label, fibadd, verifC16Lookup(verifC16Name("/a/x")))
	case 5:
		verifConcurrently(label, stratset, lookup)
	case 6:
		verifConcurrently(label, cleanup1, cleanup2)
	case 8:
		verifConcurrently(label, stratset, unreg)
	case 9:
		verifConcurrently(label, func() { FibStrategyTable.RemoveNextHopEnc(verifC16Name("/a"), 1) }, cleanup1)
	case 10:
		// the table walk of the status datasets, not what the caller does with the entries afterwards (see above): it
		// takes the same locks as the updates and must not be able to block them for ever
		verifConcurrently(label, fibadd, func() { _ = FibStrategyTable.GetAllFIBEntries() })
	case 11:
		verifConcurrently(label, reg, func() { _ = FibStrategyTable.GetAllForwardingStrategies() })
	case 7:
		csReplacementPolicy = "lru"
		cs := NewPitCS(func(PitEntry) {})
		verifConcurrently(label, func() { SetCsCapacity(5) }, func() { cs.csReplacement.EvictEntries() })
	}
}

// Lookup atomicity: while one table operation runs, a forwarding-thread lookup executed at any point where the
// operation has released its locks must return, for every name, the next-hop set of the state before or of the
// state after the operation - never an empty, partial or fallen-back list.
type verifHop struct{ face, cost uint64 }

type verifC16Snap [3][]verifHop

func verifC16Snapshot() verifC16Snap {
	var s verifC16Snap
	for i, n := range []string{"/a", "/a/b", "/a/b/c"} {
		for _, nh := range FibStrategyTable.FindNextHopsEnc(verifC16Name(n)) {
			s[i] = append(s[i], verifHop{nh.Nexthop, nh.Cost})
		}
	}
	return s
}

func verifC16SameSet(a, b []verifHop) bool {
	if len(a) != len(b) {
		return false
	}
	for _, x := range a {
		found := false
		for _, y := range b {
			if x == y {
				found = true
			}
		}
		if !found {
			return false
		}
	}
	return true
}

var verifC16AtomicOps = []string{"rib-reregister-cost", "rib-register-new-face", "rib-unregister", "face-cleanup", "fib-update-cost"}

func VerifC16_LookupAtomicity() {
	verifC16Setup()
	var op func()
	switch verifChoice("op", len(verifC16AtomicOps)) {
	case 0:
		op = func() { Rib.AddEncRoute(verifC16Name("/a"), &Route{FaceID: 1, Cost: 7, Flags: RouteFlagChildInherit}) }
	case 1:
		op = func() { Rib.AddEncRoute(verifC16Name("/a/b"), &Route{FaceID: 3, Cost: 5}) }
	case 2:
		op = func() { Rib.RemoveRouteEnc(verifC16Name("/a/b"), 2, 0) }
	case 3:
		op = func() { Rib.CleanUpFace(2) }
	case 4:
		op = func() { FibStrategyTable.InsertNextHopEnc(verifC16Name("/a"), 1, 9) }
	}
	pre := verifC16Snapshot()
	var seen []verifC16Snap
	verifAtEveryRelease(op, func() {
		s := verifC16Snapshot()
		if n := len(seen); n > 0 {
			same := true
			for i := range s {
				if !verifC16SameSet(s[i], seen[n-1][i]) {
					same = false
				}
			}
			if same {
				return
			}
		}
		seen = append(seen, s)
	})
	post := verifC16Snapshot()
	for _, s := range seen {
		for i := range s {
			verifAssert(verifC16SameSet(s[i], pre[i]) || verifC16SameSet(s[i], post[i]), "C16/lookup-sees-the-state-before-or-after-an-overlapping-operation")
		}
	}
}
