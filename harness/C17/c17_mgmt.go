//verif:dir fw/mgmt
package mgmt

import (
	"github.com/named-data/ndnd/fw/core"
	"github.com/named-data/ndnd/fw/defn"
	"github.com/named-data/ndnd/fw/dispatch"
	"github.com/named-data/ndnd/fw/face"
	"github.com/named-data/ndnd/fw/fw"
	"github.com/named-data/ndnd/fw/table"
	enc "github.com/named-data/ndnd/std/encoding"
	"github.com/named-data/ndnd/std/ndn"
	mgmt "github.com/named-data/ndnd/std/ndn/mgmt_2022"
	spec "github.com/named-data/ndnd/std/ndn/spec_2022"
)

// C17: management commands through the REAL management thread (Thread.Run) and the real internal
// face/transport; the goroutines (Run, face send/receive loops) are scheduled cooperatively.

type verifC17Fw struct{ datas []*defn.Pkt }

func (t *verifC17Fw) String() string            { return "verif-fw" }
func (t *verifC17Fw) QueueData(p *defn.Pkt)     { t.datas = append(t.datas, p) }
func (t *verifC17Fw) QueueInterest(p *defn.Pkt) {}
func (t *verifC17Fw) GetNumPitEntries() int     { return 0 }
func (t *verifC17Fw) GetNumCsEntries() int      { return 0 }

type verifC17Rig struct {
	m     *Thread
	fwt   *verifC17Fw
	faces []uint64
}

func verifC17Setup(allowLocalhop bool) *verifC17Rig {
	cfg := core.DefaultConfig()
	cfg.Mgmt.AllowLocalhop = allowLocalhop
	cfg.Tables.Rib.ReadvertiseNlsr = false
	cfg.Faces.QueueSize = 16
	core.LoadConfig(cfg, "")
	table.Configure()
	face.Configure()
	fw.Configure()
	Configure()
	table.CreateFIBTable("nametree")
	r := &verifC17Rig{fwt: &verifC17Fw{}}
	dispatch.InitializeFWThreads([]dispatch.FWThread{r.fwt})
	fw.Threads = make([]*fw.Thread, 1)
	fw.NumFwThreads = 1 // as the executor does: one dispatch entry per configured thread
	for i := 0; i < 2; i++ {
		ls := face.MakeNullLinkService(face.MakeNullTransport())
		face.FaceTable.Add(ls)
		r.faces = append(r.faces, ls.FaceID())
	}
	verifQueueGoroutines(true)
	r.m = MakeMgmtThread()
	go r.m.Run()
	verifRunGoroutines()
	return r
}

// deliver a command Interest to the management thread the way a forwarding thread does, and
// return the status code of the response (0 = no response)
func (r *verifC17Rig) command(name enc.Name, inFace uint64) uint64 {
	interest, err := spec.Spec{}.MakeInterest(name, &ndn.InterestConfig{MustBeFresh: true}, nil, nil)
	if err != nil {
		return 0
	}
	wire := interest.Wire.Join()
	pkt, _, err := spec.ReadPacket(enc.NewBufferReader(wire))
	if err != nil {
		return 0
	}
	before := len(r.fwt.datas)
	r.m.face.SendPacket(dispatch.OutPkt{Pkt: &defn.Pkt{Name: name, L3: pkt, Raw: wire}, InFace: &inFace})
	verifRunGoroutines()
	if len(r.fwt.datas) == before {
		return 0
	}
	d := r.fwt.datas[len(r.fwt.datas)-1]
	resp, err := mgmt.ParseControlResponse(enc.NewWireReader(d.L3.Data.ContentV), true)
	if err != nil || resp.Val == nil {
		return 1
	}
	return resp.Val.StatusCode
}

func verifC17Prefix(kind int) enc.Name {
	s := []string{"/localhost/nfd", "/localhop/nfd", "/example/nfd"}[kind]
	n, _ := enc.NameFromStr(s)
	return n
}

func verifC17Cmd(prefix enc.Name, module, verb string, args *mgmt.ControlArgs) enc.Name {
	n := append(enc.Name{}, prefix...)
	n = append(n, enc.NewStringComponent(enc.TypeGenericNameComponent, module), enc.NewStringComponent(enc.TypeGenericNameComponent, verb))
	if args != nil {
		p := &mgmt.ControlParameters{Val: args}
		n = append(n, enc.NewBytesComponent(enc.TypeGenericNameComponent, p.Encode().Join()))
	}
	return n
}

func verifHasHop(n enc.Name, faceID, cost uint64) bool {
	for _, h := range table.FibStrategyTable.FindNextHopsEnc(n) {
		if h.Nexthop == faceID && h.Cost == cost {
			return true
		}
	}
	return false
}

// RIB register / unregister and FIB add/remove with every combination of optional fields
func VerifC17_RibFibCommands() {
	allowLocalhop := verifBool("allowLocalhop")
	r := verifC17Setup(allowLocalhop)
	pk := verifChoice("prefix", 3)
	target, _ := enc.NameFromStr("/a/b")
	args := &mgmt.ControlArgs{}
	if verifBool("hasName") {
		args.Name = target
	}
	var faceID, cost, origin, flags uint64
	faceID = r.faces[0] // the requesting face
	origin, flags = table.RouteOriginApp, table.RouteFlagChildInherit
	badFace := false
	if verifBool("hasFace") {
		f := verifRange("faceId", 0, 9)
		args.FaceId = &f
		if f != 0 {
			faceID = f
			badFace = face.FaceTable.Get(f) == nil
		}
	}
	if verifBool("hasCost") {
		c := verifU64("cost")
		args.Cost = &c
		cost = c
	}
	isRib := verifBool("rib")
	if isRib {
		if verifBool("hasOrigin") {
			o := verifRange("origin", 0, 255)
			args.Origin = &o
			origin = o
		}
		if verifBool("hasFlags") {
			f := verifRange("flags", 0, 3)
			args.Flags = &f
			flags = f
		}
	}
	module, verb := "fib", "add-nexthop"
	if isRib {
		module, verb = "rib", "register"
	}
	var status uint64
	verifNoPanic("C17/command-no-panic", func() {
		status = r.command(verifC17Cmd(verifC17Prefix(pk), module, verb, args), r.faces[0])
	})
	accepted := pk == 0 || (pk == 1 && allowLocalhop && isRib)
	hop := verifHasHop(target, faceID, cost)
	if !accepted {
		verifAssert(len(table.Rib.GetAllEntries()) == 0 && len(table.FibStrategyTable.FindNextHopsEnc(target)) == 0, "C17/command-outside-the-management-prefix-changes-nothing")
		return
	}
	if args.Name == nil {
		verifAssert(status >= 400 && status < 500, "C17/missing-name-is-refused-with-4xx")
		verifAssert(len(table.FibStrategyTable.FindNextHopsEnc(target)) == 0, "C17/refused-command-changes-nothing")
		return
	}
	if badFace {
		verifAssert(status >= 400 && status < 500, "C17/nonexistent-face-is-refused-with-4xx")
		verifAssert(len(table.FibStrategyTable.FindNextHopsEnc(target)) == 0, "C17/refused-command-changes-nothing")
		return
	}
	verifAssert(status == 200, "C17/accepted-command-reports-200")
	verifAssert(hop, "C17/accepted-command-installs-the-next-hop-with-defaults")
	if isRib {
		ok := false
		for _, e := range table.Rib.GetAllEntries() {
			for _, rt := range e.GetRoutes() {
				if e.Name.Equal(target) && rt.FaceID == faceID && rt.Origin == origin && rt.Cost == cost && rt.Flags == flags {
					ok = true
				}
			}
		}
		verifAssert(ok, "C17/rib-register-stores-the-route-with-defaults")
	}
	// and the inverse command removes it again
	rm := &mgmt.ControlArgs{Name: target, FaceId: &faceID}
	if isRib {
		rm.Origin = &origin
		verb = "unregister"
	} else {
		verb = "remove-nexthop"
	}
	verifNoPanic("C17/command-no-panic", func() {
		status = r.command(verifC17Cmd(verifC17Prefix(0), module, verb, rm), r.faces[0])
	})
	verifAssert(status == 200, "C17/accepted-command-reports-200")
	verifAssert(len(table.FibStrategyTable.FindNextHopsEnc(target)) == 0, "C17/removal-command-removes-the-next-hop")
}

// strategy-choice set/unset and cs config
func VerifC17_StrategyCsCommands() {
	r := verifC17Setup(false)
	target, _ := enc.NameFromStr("/a")
	var status uint64
	switch verifChoice("cmd", 3) {
	case 0: // strategy-choice set with several strategy names
		strategies := []string{"/localhost/nfd/strategy/multicast", "/localhost/nfd/strategy/multicast/v=1", "/localhost/nfd/strategy/best-route/v=1",
			"/localhost/nfd/strategy", "/localhost/nfd/strategy/unknown", "/localhost/nfd/strategy/multicast/v=7", "/localhost/nfd/strategy/multicast/x", "/other"}
		k := verifChoice("strategy", len(strategies))
		sn, _ := enc.NameFromStr(strategies[k])
		args := &mgmt.ControlArgs{Name: target, Strategy: &mgmt.Strategy{Name: sn}}
		if verifBool("noName") {
			args.Name = nil
		}
		verifNoPanic("C17/command-no-panic", func() {
			status = r.command(verifC17Cmd(verifC17Prefix(0), "strategy-choice", "set", args), r.faces[0])
		})
		got := table.FibStrategyTable.FindStrategyEnc(target)
		def, _ := enc.NameFromStr("/localhost/nfd/strategy/best-route/v=1")
		if k <= 2 && args.Name != nil {
			verifAssert(status == 200, "C17/accepted-command-reports-200")
			want := []string{"/localhost/nfd/strategy/multicast/v=1", "/localhost/nfd/strategy/multicast/v=1", "/localhost/nfd/strategy/best-route/v=1"}[k]
			wn, _ := enc.NameFromStr(want)
			verifAssert(got.Equal(wn), "C17/strategy-set-installs-the-versioned-strategy")
		} else {
			verifAssert(status >= 400 && status < 500, "C17/bad-strategy-is-refused-with-4xx")
			verifAssert(got.Equal(def), "C17/refused-command-changes-nothing")
		}
	case 1: // unset: the root cannot be unset
		root := verifBool("root")
		n := target
		if root {
			n = enc.Name{}
		}
		mc, _ := enc.NameFromStr("/localhost/nfd/strategy/multicast/v=1")
		table.FibStrategyTable.SetStrategyEnc(target, mc)
		verifNoPanic("C17/command-no-panic", func() {
			status = r.command(verifC17Cmd(verifC17Prefix(0), "strategy-choice", "unset", &mgmt.ControlArgs{Name: n}), r.faces[0])
		})
		if root {
			verifAssert(status >= 400 && status < 500, "C17/unset-of-root-strategy-is-refused")
			verifAssert(table.FibStrategyTable.FindStrategyEnc(enc.Name{}) != nil, "C17/root-strategy-always-present")
		} else {
			verifAssert(status == 200, "C17/accepted-command-reports-200")
			def, _ := enc.NameFromStr("/localhost/nfd/strategy/best-route/v=1")
			verifAssert(table.FibStrategyTable.FindStrategyEnc(target).Equal(def), "C17/strategy-unset-falls-back-to-the-shorter-prefix")
		}
	case 2: // cs config capacity: any 64-bit value; afterwards the cache still works
		capv := verifU64("capacity")
		args := &mgmt.ControlArgs{Capacity: &capv}
		before := table.CsCapacity()
		verifNoPanic("C17/command-no-panic", func() {
			status = r.command(verifC17Cmd(verifC17Prefix(0), "cs", "config", args), r.faces[0])
		})
		if status == 200 {
			verifAssert(table.CsCapacity() >= 0 && uint64(table.CsCapacity()) == capv, "C17/cs-capacity-command-sets-exactly-that-capacity")
		} else {
			verifAssert(status >= 400 && status < 500 && table.CsCapacity() == before, "C17/refused-command-changes-nothing")
		}
		cs := table.NewPitCS(func(table.PitEntry) {})
		dn, _ := enc.NameFromStr("/d")
		verifNoPanic("C17/cache-usable-after-capacity-command", func() { cs.InsertData(&spec.Data{NameV: dn}, []byte{0x06, 0x00}) })
	}
}
