//verif:dir fw/mgmt
package mgmt

import (
	"github.com/named-data/ndnd/fw/face"
	"github.com/named-data/ndnd/fw/table"
	enc "github.com/named-data/ndnd/std/encoding"
	mgmt "github.com/named-data/ndnd/std/ndn/mgmt_2022"
)

// A sequence of three RIB commands on nested prefixes (/a, /a/b, /a/b/c) through the real management thread:
// every command's table effect is "exactly what its parameters describe", which for routes with child-inherit
// and capture flags includes the next hops of longer prefixes; afterwards the fib/list and rib/list status
// datasets must list exactly the current table contents.

type verifC17Route struct {
	prefix             int
	face, cost, flags uint64
}

func verifC17Hops(routes []verifC17Route, p int) map[uint64]uint64 {
	has := func(q int) (rs []verifC17Route, capture bool) {
		for _, r := range routes {
			if r.prefix == q {
				rs = append(rs, r)
				if r.flags&table.RouteFlagCapture != 0 {
					capture = true
				}
			}
		}
		return
	}
	own, capt := has(p)
	if len(own) == 0 {
		return nil
	}
	contributing := append([]verifC17Route{}, own...)
	if !capt {
		for q := p - 1; q >= 0; q-- {
			anc, c := has(q)
			for _, r := range anc {
				if r.flags&table.RouteFlagChildInherit != 0 {
					contributing = append(contributing, r)
				}
			}
			if c {
				break
			}
		}
	}
	out := map[uint64]uint64{}
	for _, r := range contributing {
		if c, ok := out[r.face]; !ok || r.cost < c {
			out[r.face] = r.cost
		}
	}
	return out
}

// fetch a status dataset through the management thread and return its content
func (r *verifC17Rig) dataset(module string) enc.Wire {
	n := append(enc.Name{}, verifC17Prefix(0)...)
	n = append(n, enc.NewStringComponent(enc.TypeGenericNameComponent, module), enc.NewStringComponent(enc.TypeGenericNameComponent, "list"))
	before := len(r.fwt.datas)
	r.command(n, r.faces[0])
	if len(r.fwt.datas) == before {
		return nil
	}
	return r.fwt.datas[len(r.fwt.datas)-1].L3.Data.ContentV
}

func VerifC17_RibSequence() {
	r := verifC17Setup(false)
	chain, _ := enc.NameFromStr("/a/b/c")
	var routes []verifC17Route
	// what the forwarder's own setup put into the FIB (the management prefix)
	var preexisting []enc.Name
	for _, e := range table.FibStrategyTable.GetAllFIBEntries() {
		preexisting = append(preexisting, e.Name())
	}
	nops := verifParam("ribops", 3)
	for k := 0; k < nops; k++ {
		p := verifChoice("prefix", 3)
		name := chain[:p+1]
		face := r.faces[k%2]
		unregister := false
		if k == nops-1 {
			if verifBool("otherFace") {
				face = r.faces[(k+1)%2]
			}
			unregister = verifBool("unregister")
		}
		origin := uint64(table.RouteOriginApp)
		var status uint64
		if unregister {
			args := &mgmt.ControlArgs{Name: name, FaceId: &face}
			verifNoPanic("C17/command-no-panic", func() {
				status = r.command(verifC17Cmd(verifC17Prefix(0), "rib", "unregister", args), r.faces[0])
			})
			for i := range routes {
				if routes[i].prefix == p && routes[i].face == face {
					routes = append(routes[:i], routes[i+1:]...)
					break
				}
			}
		} else {
			cost := uint64(10 - 3*k)
			flags := verifRange("flags", 0, 3)
			args := &mgmt.ControlArgs{Name: name, FaceId: &face, Cost: &cost, Flags: &flags}
			verifNoPanic("C17/command-no-panic", func() {
				status = r.command(verifC17Cmd(verifC17Prefix(0), "rib", "register", args), r.faces[0])
			})
			found := false
			for i := range routes {
				if routes[i].prefix == p && routes[i].face == face {
					routes[i].cost, routes[i].flags = cost, flags
					found = true
				}
			}
			if !found {
				routes = append(routes, verifC17Route{p, face, cost, flags})
			}
		}
		_ = origin
		verifAssert(status == 200, "C17/accepted-command-reports-200")
	}
	// table effect: every prefix forwards to exactly what the registered routes prescribe
	for p := 0; p < 3; p++ {
		want := verifC17Hops(routes, p)
		if want == nil {
			continue
		}
		got := table.FibStrategyTable.FindNextHopsEnc(chain[:p+1])
		verifAssert(len(got) == len(want), "C17/rib-commands-have-exactly-the-described-fib-effect")
		for _, h := range got {
			c, ok := want[h.Nexthop]
			verifAssert(ok && c == h.Cost, "C17/rib-commands-have-exactly-the-described-fib-effect")
		}
	}
	// fib/list lists exactly the prefixes with routes, with exactly those next hops
	var fibs *mgmt.FibStatus
	var err error
	verifNoPanic("C17/dataset-no-panic", func() {
		fibs, err = mgmt.ParseFibStatus(enc.NewWireReader(r.dataset("fib")), true)
	})
	verifAssert(err == nil && fibs != nil, "C17/fib-dataset-is-served-and-decodes")
	if err != nil || fibs == nil {
		return
	}
	for p := 0; p < 3; p++ {
		want := verifC17Hops(routes, p)
		n := 0
		for _, e := range fibs.Entries {
			if e.Name.Equal(chain[:p+1]) {
				n++
				verifAssert(len(e.NextHopRecords) == len(want), "C17/fib-dataset-lists-exactly-the-current-next-hops")
				for _, h := range e.NextHopRecords {
					c, ok := want[h.FaceId]
					verifAssert(ok && c == h.Cost, "C17/fib-dataset-lists-exactly-the-current-next-hops")
				}
			}
		}
		if want == nil {
			verifAssert(n == 0, "C17/fib-dataset-lists-no-prefix-without-routes")
		} else {
			verifAssert(n == 1, "C17/fib-dataset-lists-every-prefix-with-routes-once")
		}
	}
	for _, e := range fibs.Entries {
		known := e.Name.IsPrefix(chain) && len(e.Name) >= 1
		for _, q := range preexisting {
			known = known || q.Equal(e.Name)
		}
		verifAssert(known, "C17/fib-dataset-lists-nothing-else")
	}
	// rib/list lists exactly the registered routes
	var ribs *mgmt.RibStatus
	verifNoPanic("C17/dataset-no-panic", func() {
		ribs, err = mgmt.ParseRibStatus(enc.NewWireReader(r.dataset("rib")), true)
	})
	verifAssert(err == nil && ribs != nil, "C17/rib-dataset-is-served-and-decodes")
	if err != nil || ribs == nil {
		return
	}
	listed := 0
	for _, e := range ribs.Entries {
		for _, rt := range e.Routes {
			listed++
			ok := false
			for _, m := range routes {
				if e.Name.Equal(chain[:m.prefix+1]) && rt.FaceId == m.face && rt.Cost == m.cost && rt.Flags == m.flags && rt.Origin == table.RouteOriginApp {
					ok = true
				}
			}
			verifAssert(ok, "C17/rib-dataset-lists-only-registered-routes")
		}
	}
	verifAssert(listed == len(routes), "C17/rib-dataset-lists-every-registered-route")
	verifObserve("routes", len(routes))
}

// strategy-choice/list, faces/list and cs/info after an optional state-changing command
func VerifC17_OtherDatasets() {
	r := verifC17Setup(false)
	target, _ := enc.NameFromStr("/a")
	mc, _ := enc.NameFromStr("/localhost/nfd/strategy/multicast/v=1")
	def, _ := enc.NameFromStr("/localhost/nfd/strategy/best-route/v=1")
	switch verifChoice("dataset", 3) {
	case 0:
		set := verifBool("set")
		if set {
			st := r.command(verifC17Cmd(verifC17Prefix(0), "strategy-choice", "set", &mgmt.ControlArgs{Name: target, Strategy: &mgmt.Strategy{Name: mc}}), r.faces[0])
			verifAssert(st == 200, "C17/accepted-command-reports-200")
			if verifBool("thenUnset") {
				st = r.command(verifC17Cmd(verifC17Prefix(0), "strategy-choice", "unset", &mgmt.ControlArgs{Name: target}), r.faces[0])
				verifAssert(st == 200, "C17/accepted-command-reports-200")
				set = false
			}
		}
		var msg *mgmt.StrategyChoiceMsg
		var err error
		verifNoPanic("C17/dataset-no-panic", func() {
			msg, err = mgmt.ParseStrategyChoiceMsg(enc.NewWireReader(r.dataset("strategy-choice")), true)
		})
		verifAssert(err == nil && msg != nil, "C17/strategy-dataset-is-served-and-decodes")
		if err != nil || msg == nil {
			return
		}
		nroot, ntarget := 0, 0
		for _, sc := range msg.StrategyChoices {
			if len(sc.Name) == 0 {
				nroot++
				verifAssert(sc.Strategy != nil && sc.Strategy.Name.Equal(def), "C17/strategy-dataset-lists-exactly-the-current-choices")
			} else if sc.Name.Equal(target) {
				ntarget++
				verifAssert(sc.Strategy != nil && sc.Strategy.Name.Equal(mc), "C17/strategy-dataset-lists-exactly-the-current-choices")
			} else {
				verifAssert(false, "C17/strategy-dataset-lists-exactly-the-current-choices")
			}
		}
		verifAssert(nroot == 1 && ((set && ntarget == 1) || (!set && ntarget == 0)), "C17/strategy-dataset-lists-exactly-the-current-choices")
	case 1:
		var msg *mgmt.FaceStatusMsg
		var err error
		verifNoPanic("C17/dataset-no-panic", func() {
			msg, err = mgmt.ParseFaceStatusMsg(enc.NewWireReader(r.dataset("faces")), true)
		})
		verifAssert(err == nil && msg != nil, "C17/face-dataset-is-served-and-decodes")
		if err != nil || msg == nil {
			return
		}
		all := face.FaceTable.GetAll()
		verifAssert(len(msg.Vals) == len(all), "C17/face-dataset-lists-exactly-the-current-faces")
		for _, f := range all {
			n := 0
			for _, v := range msg.Vals {
				if v.FaceId == f.FaceID() {
					n++
					verifAssert(v.Mtu != nil && *v.Mtu == uint64(f.MTU()) && v.FaceScope == uint64(f.Scope()) && v.LinkType == uint64(f.LinkType()) &&
						v.FacePersistency == uint64(f.Persistency()), "C17/face-dataset-lists-exactly-the-current-faces")
				}
			}
			verifAssert(n == 1, "C17/face-dataset-lists-exactly-the-current-faces")
		}
	case 2:
		want := uint64(table.CsCapacity())
		if verifBool("config") {
			capv := verifRange("capacity", 0, 100000)
			st := r.command(verifC17Cmd(verifC17Prefix(0), "cs", "config", &mgmt.ControlArgs{Capacity: &capv}), r.faces[0])
			verifAssert(st == 200, "C17/accepted-command-reports-200")
			want = capv
		}
		var msg *mgmt.CsInfoMsg
		var err error
		verifNoPanic("C17/dataset-no-panic", func() {
			msg, err = mgmt.ParseCsInfoMsg(enc.NewWireReader(r.dataset2("cs", "info")), true)
		})
		verifAssert(err == nil && msg != nil && msg.CsInfo != nil, "C17/cs-dataset-is-served-and-decodes")
		if err != nil || msg == nil || msg.CsInfo == nil {
			return
		}
		verifAssert(msg.CsInfo.Capacity == want, "C17/cs-dataset-reports-the-configured-capacity")
	}
}

func (r *verifC17Rig) dataset2(module, verb string) enc.Wire {
	n := append(enc.Name{}, verifC17Prefix(0)...)
	n = append(n, enc.NewStringComponent(enc.TypeGenericNameComponent, module), enc.NewStringComponent(enc.TypeGenericNameComponent, verb))
	before := len(r.fwt.datas)
	r.command(n, r.faces[0])
	if len(r.fwt.datas) == before {
		return nil
	}
	return r.fwt.datas[len(r.fwt.datas)-1].L3.Data.ContentV
}
