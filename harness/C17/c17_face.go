//verif:dir fw/mgmt
package mgmt

import (
	"github.com/named-data/ndnd/fw/defn"
	"github.com/named-data/ndnd/fw/face"
	mgmt "github.com/named-data/ndnd/std/ndn/mgmt_2022"
)

// faces/update on an existing NDNLP face: MTU (any 64-bit value, in classes), Flags/Mask presence.
// Accepted => exactly that effect and the face still carries packets; refused => 4xx, nothing changed,
// the face still carries packets.  "Too small to carry a packet" is not given a number here: whatever the
// command answers, an accepted MTU must leave a face that can send (no crash, frames within the MTU).
var verifC17SmallMtus = []uint64{0, 1, 7, 8, 33, 34, 57, 58, 59, 60, 64, 100, 127}
var verifC17Mtus = []uint64{128, 129, 1500, 8799, 8800}

func VerifC17_FaceUpdate() {
	r := verifC17Setup(false)
	const mtu0 = 1500
	l := face.VerifXC17MemFace(mtu0)
	fid := l.FaceID()
	args := &mgmt.ControlArgs{FaceId: &fid}
	symbolicMtu := false
	var mtu uint64
	hasMtu := verifBool("hasMtu")
	if hasMtu {
		switch verifChoice("mtuClass", 4) {
		case 0:
			mtu = verifC17SmallMtus[verifChoice("small", len(verifC17SmallMtus))]
		case 1:
			mtu = verifC17Mtus[verifChoice("listed", len(verifC17Mtus))]
		case 2:
			mtu = verifU64("mtuHuge")
			verifAssume(mtu > defn.MaxNDNPacketSize)
		case 3:
			mtu = verifRange("mtu", 128, defn.MaxNDNPacketSize)
			symbolicMtu = true
		}
		args.Mtu = &mtu
	}
	var flags, mask uint64
	hasFlags, hasMask := verifBool("hasFlags"), verifBool("hasMask")
	if hasFlags {
		flags = verifRange("flags", 0, 3)
		args.Flags = &flags
	}
	if hasMask {
		mask = verifRange("mask", 0, 3)
		args.Mask = &mask
	}
	before := l.Options()
	var status uint64
	verifNoPanic("C17/command-no-panic", func() {
		status = r.command(verifC17Cmd(verifC17Prefix(0), "faces", "update", args), r.faces[0])
	})
	after := l.Options()
	if hasFlags != hasMask {
		verifAssert(status >= 400 && status < 500, "C17/flags-without-mask-refused-with-4xx")
	}
	if status == 200 {
		verifAssert(hasFlags == hasMask, "C17/flags-without-mask-refused-with-4xx")
		want := mtu0
		if hasMtu {
			want = int(mtu)
			if mtu > defn.MaxNDNPacketSize {
				want = defn.MaxNDNPacketSize
			}
		}
		verifAssert(l.MTU() == want, "C17/face-update-sets-exactly-that-mtu")
		wantLocal, wantCong := before.IsConsumerControlledForwardingEnabled, before.IsCongestionMarkingEnabled
		if hasFlags {
			if mask&face.FaceFlagLocalFields != 0 {
				wantLocal = flags&face.FaceFlagLocalFields != 0
			}
			if mask&face.FaceFlagCongestionMarking != 0 {
				wantCong = flags&face.FaceFlagCongestionMarking != 0
			}
		}
		verifAssert(after.IsConsumerControlledForwardingEnabled == wantLocal && after.IsIncomingFaceIndicationEnabled == wantLocal &&
			after.IsLocalCachePolicyEnabled == wantLocal && after.IsCongestionMarkingEnabled == wantCong, "C17/face-update-sets-exactly-the-masked-flags")
	} else {
		verifAssert(status >= 400 && status < 500, "C17/refused-command-is-4xx")
		verifAssert(l.MTU() == mtu0 && after == before, "C17/refused-command-changes-nothing")
		if hasFlags == hasMask && (!hasMtu || mtu >= 128) {
			verifAssert(false, "C17/valid-face-update-is-accepted")
		}
	}
	if symbolicMtu && status == 200 {
		// the number of fragments would fork per MTU value; sending is checked for the listed MTUs (and for every
		// MTU >= 128 by C10's SenderFrames)
		return
	}
	// whatever was answered, the face still carries packets within its MTU
	var sizes []int
	// a 300-byte packet always; a maximum-size packet too unless the MTU is tiny (thousands of fragments)
	n := 300
	if l.MTU() >= 128 && verifBool("bigPacket") {
		n = defn.MaxNDNPacketSize
	}
	verifNoPanic("C17/face-usable-after-update", func() { sizes = face.VerifXC17Send(l, n) })
	verifAssert(len(sizes) > 0, "C17/face-usable-after-update")
	for _, s := range sizes {
		verifAssert(s <= l.MTU(), "C17/face-usable-after-update")
	}
	verifObserve("status", int(status))
	verifObserve("frames", len(sizes))
}
