//verif:dir fw/face
package face

import (
	defn "github.com/named-data/ndnd/fw/defn"
	"github.com/named-data/ndnd/fw/dispatch"
	enc "github.com/named-data/ndnd/std/encoding"
	spec "github.com/named-data/ndnd/std/ndn/spec_2022"
)

// C17 helpers living in package face: an in-memory transport with a non-null, non-internal URI scheme
// ("fd"), so that faces/update accepts the face, and a direct call of the real sendPacket.

type verifXC17Transport struct {
	transportBase
	frames [][]byte
}

func (t *verifXC17Transport) String() string                     { return "verif-c17-transport" }
func (t *verifXC17Transport) SetPersistency(p Persistency) bool { t.persistency = p; return true }
func (t *verifXC17Transport) GetSendQueueSize() uint64           { return 0 }
func (t *verifXC17Transport) sendFrame(f []byte) {
	c := make([]byte, len(f))
	copy(c, f)
	t.frames = append(t.frames, c)
}
func (t *verifXC17Transport) runReceive() {}
func (t *verifXC17Transport) Close()      {}

// VerifXC17MemFace makes an NDNLP face over the in-memory transport and adds it to the face table.
func VerifXC17MemFace(mtu int) *NDNLPLinkService {
	tr := &verifXC17Transport{}
	tr.makeTransportBase(defn.MakeFDFaceURI(7), defn.MakeFDFaceURI(8), PersistencyPersistent, defn.NonLocal, defn.PointToPoint, mtu)
	l := MakeNDNLPLinkService(tr, MakeNDNLPLinkServiceOptions())
	FaceTable.Add(l)
	return l
}

// VerifXC17Send pushes a well-formed Data packet of n bytes (n >= 300) through the real sendPacket of the face
// (with a PIT token and a congestion mark, the largest header) and returns the sizes of the frames emitted.
func VerifXC17Send(l *NDNLPLinkService, n int) []int {
	clen := n - 13
	w := make([]byte, 0, n)
	w = append(w, 0x06, 0xfd, byte((n-4)>>8), byte(n-4))
	w = append(w, 0x07, 0x03, 0x08, 0x01, 'a')
	w = append(w, 0x15, 0xfd, byte(clen>>8), byte(clen))
	w = append(w, make([]byte, clen)...)
	name, _ := enc.NameFromStr("/a")
	tr := l.transport.(*verifXC17Transport)
	tr.frames = nil
	mark := uint64(1)
	pkt := &defn.Pkt{Name: name, Raw: w, L3: &spec.Packet{Data: &spec.Data{NameV: name}}, PitToken: []byte{0, 0, 1, 2, 3, 4}, CongestionMark: &mark}
	sendPacket(l, dispatch.OutPkt{Pkt: pkt, PitToken: pkt.PitToken})
	var sizes []int
	for _, f := range tr.frames {
		sizes = append(sizes, len(f))
	}
	return sizes
}
