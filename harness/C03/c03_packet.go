//verif:dir std/ndn/spec_2022
package spec_2022

import (
	"time"

	enc "github.com/named-data/ndnd/std/encoding"
	"github.com/named-data/ndnd/std/ndn"
)

// C03, packet layer: an Interest / Data built by the encoder from arbitrary field values decodes - contiguously
// and split into two segments at any offset - to exactly those values.  Unsigned packets (signing is C12).

func verifC03Name(tag string, min int) enc.Name {
	n := make(enc.Name, min+verifChoice(tag+"ncomp", verifParam("pktcomps", 1)+1-min))
	for i := range n {
		n[i] = enc.Component{Typ: enc.TypeGenericNameComponent, Val: verifBytesN(tag+"comp", verifChoice(tag+"complen", 3))}
	}
	return n
}

func verifC03Readers(wire []byte) enc.ParseReader {
	if !verifBool("segmented") {
		return enc.NewBufferReader(wire)
	}
	// two segments cut at both ends, inside the outer header, inside the name, in the middle, and before each of the
	// last six bytes (the trailing elements)
	cuts := []int{0, 1, 2, 3, 4, 6, len(wire) / 2, len(wire) - 6, len(wire) - 5, len(wire) - 4, len(wire) - 3, len(wire) - 2, len(wire) - 1, len(wire)}
	cut := cuts[verifChoice("cut", len(cuts))]
	if cut < 0 {
		cut = 0
	}
	if cut > len(wire) {
		cut = len(wire)
	}
	return enc.NewWireReader(enc.Wire{wire[:cut], wire[cut:]})
}

func VerifC03_InterestRT() {
	name := verifC03Name("n", 1)
	cfg := &ndn.InterestConfig{CanBePrefix: verifBool("cbp"), MustBeFresh: verifBool("mbf")}
	// optional fields: none, all, each alone, all but one
	const nopt = 5
	all := uint(1)<<nopt - 1
	mask := all
	switch k := verifChoice("mask", 2*nopt+2); {
	case k == 0:
		mask = 0
	case k == 1:
	case k < 2+nopt:
		mask = 1 << uint(k-2)
	default:
		mask = all &^ (1 << uint(k-2-nopt))
	}
	if mask&1 != 0 {
		v := verifRange("nonce", 0, 1<<32-1)
		cfg.Nonce = &v
	}
	if mask&2 != 0 {
		v := time.Duration(verifRange("lifetimeMs", 0, 1<<40)) * time.Millisecond
		cfg.Lifetime = &v
	}
	if mask&4 != 0 {
		v := uint(verifRange("hop", 0, 255))
		cfg.HopLimit = &v
	}
	if mask&8 != 0 {
		cfg.ForwardingHint = []enc.Name{verifC03Name("h", 1)}
	}
	var app enc.Wire
	if mask&16 != 0 {
		app = enc.Wire{verifBytesN("app", verifChoice("applen", 3))}
	}
	var ei *ndn.EncodedInterest
	var err error
	verifNoPanic("C03/interest/make-no-panic", func() { ei, err = Spec{}.MakeInterest(name, cfg, app, nil) })
	verifAssert(err == nil && ei != nil, "C03/interest/make-succeeds")
	wire := ei.Wire.Join()
	var got ndn.Interest
	var perr error
	r := verifC03Readers(wire)
	verifNoPanic("C03/interest/read-no-panic", func() { got, _, perr = Spec{}.ReadInterest(r) })
	verifAssert(perr == nil && got != nil, "C03/interest/decodes")
	if perr != nil || got == nil {
		return
	}
	verifAssert(got.Name().Equal(ei.FinalName), "C03/interest/name")
	verifAssert(got.CanBePrefix() == cfg.CanBePrefix && got.MustBeFresh() == cfg.MustBeFresh, "C03/interest/flags")
	verifAssert((got.Nonce() == nil) == (cfg.Nonce == nil), "C03/interest/nonce-presence")
	if got.Nonce() != nil && cfg.Nonce != nil {
		verifAssert(*got.Nonce() == *cfg.Nonce, "C03/interest/nonce")
	}
	verifAssert((got.Lifetime() == nil) == (cfg.Lifetime == nil), "C03/interest/lifetime-presence")
	if got.Lifetime() != nil && cfg.Lifetime != nil {
		verifAssert(*got.Lifetime() == *cfg.Lifetime, "C03/interest/lifetime")
	}
	verifAssert((got.HopLimit() == nil) == (cfg.HopLimit == nil), "C03/interest/hoplimit-presence")
	if got.HopLimit() != nil && cfg.HopLimit != nil {
		verifAssert(*got.HopLimit() == *cfg.HopLimit, "C03/interest/hoplimit")
	}
	verifAssert(len(got.ForwardingHint()) == len(cfg.ForwardingHint), "C03/interest/hint-count")
	for i := range cfg.ForwardingHint {
		if i < len(got.ForwardingHint()) {
			verifAssert(got.ForwardingHint()[i].Equal(cfg.ForwardingHint[i]), "C03/interest/hint")
		}
	}
	if app != nil {
		verifAssertBytesEq(got.AppParam().Join(), app.Join(), "C03/interest/app-param")
	} else {
		verifAssert(len(got.AppParam().Join()) == 0, "C03/interest/no-app-param")
	}
	verifObserve("wirelen", len(wire))
}

var verifC03ContentLens = []int{0, 1, 253, 65536, 252, 2, 254, 65535}

func VerifC03_DataRT() {
	name := verifC03Name("n", 0)
	cfg := &ndn.DataConfig{}
	if verifBool("hasType") {
		v := ndn.ContentType(verifU64("ctype"))
		cfg.ContentType = &v
	}
	if verifBool("hasFresh") {
		v := time.Duration(verifRange("freshMs", 0, 1<<40)) * time.Millisecond
		cfg.Freshness = &v
	}
	if verifBool("hasFinal") {
		c := enc.Component{Typ: enc.TypeSegmentNameComponent, Val: verifBytesN("final", 1+verifChoice("finallen", 2))}
		cfg.FinalBlockID = &c
	}
	clen := verifC03ContentLens[verifChoice("clen", verifParam("nclens", len(verifC03ContentLens)))]
	var content enc.Wire
	if clen <= 2 {
		content = enc.Wire{verifBytesN("content", clen)}
	} else {
		content = enc.Wire{verifBytesUF("content", clen)}
	}
	var ed *ndn.EncodedData
	var err error
	verifNoPanic("C03/data/make-no-panic", func() { ed, err = Spec{}.MakeData(name, cfg, content, nil) })
	verifAssert(err == nil && ed != nil, "C03/data/make-succeeds")
	wire := ed.Wire.Join()
	var got ndn.Data
	var perr error
	var r enc.ParseReader
	if !verifBool("segmented") {
		r = enc.NewBufferReader(wire)
	} else {
		// cuts at both ends, inside the outer header, inside the name, around the content header and inside the content
		cuts := []int{0, 1, 2, 3, 4, 5, 6, 8, len(wire) - clen - 4, len(wire) - clen - 1, len(wire) - clen, len(wire) - clen + 1, len(wire) - 1, len(wire)}
		cut := cuts[verifChoice("cut", len(cuts))]
		if cut < 0 {
			cut = 0
		}
		if cut > len(wire) {
			cut = len(wire)
		}
		r = enc.NewWireReader(enc.Wire{wire[:cut], wire[cut:]})
	}
	verifNoPanic("C03/data/read-no-panic", func() { got, _, perr = Spec{}.ReadData(r) })
	verifAssert(perr == nil && got != nil, "C03/data/decodes")
	if perr != nil || got == nil {
		return
	}
	verifAssert(got.Name().Equal(name), "C03/data/name")
	verifAssert((got.ContentType() == nil) == (cfg.ContentType == nil), "C03/data/content-type-presence")
	if got.ContentType() != nil && cfg.ContentType != nil {
		verifAssert(*got.ContentType() == *cfg.ContentType, "C03/data/content-type")
	}
	verifAssert((got.Freshness() == nil) == (cfg.Freshness == nil), "C03/data/freshness-presence")
	if got.Freshness() != nil && cfg.Freshness != nil {
		verifAssert(*got.Freshness() == *cfg.Freshness, "C03/data/freshness")
	}
	verifAssert((got.FinalBlockID() == nil) == (cfg.FinalBlockID == nil), "C03/data/final-block-presence")
	if got.FinalBlockID() != nil && cfg.FinalBlockID != nil {
		verifAssert(got.FinalBlockID().Equal(*cfg.FinalBlockID), "C03/data/final-block")
	}
	verifAssertBytesEq(got.Content().Join(), content.Join(), "C03/data/content")
	verifObserve("wirelen", len(wire))
}
