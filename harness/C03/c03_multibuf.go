//verif:dir std/ndn/spec_2022
package spec_2022

import (
	"time"

	enc "github.com/named-data/ndnd/std/encoding"
	"github.com/named-data/ndnd/std/ndn"
)

// C03, "parameters or content supplied as any number of buffers": the packet built from a payload handed over as
// 1..3 buffers (empty ones included, lengths across the 253 boundary) is byte-identical to the packet built from the
// same payload in one buffer, every length field in it is exact (independent TLV walk), and it decodes to the payload.

// verifC03Walk checks that b is exactly one TLV whose value is a sequence of complete TLVs (one level) and returns the
// number of children; -1 if some length field is not exact.
func verifC03Walk(b []byte) int {
	t, p := verifC03Num(b, 0)
	if p < 0 || t == 0 {
		return -1
	}
	l, p := verifC03Num(b, p)
	if p < 0 || uint64(len(b)-p) != l {
		return -1
	}
	n := 0
	for p < len(b) {
		var ct, cl uint64
		ct, p = verifC03Num(b, p)
		if p < 0 || ct == 0 {
			return -1
		}
		cl, p = verifC03Num(b, p)
		if p < 0 || cl > uint64(len(b)-p) {
			return -1
		}
		p += int(cl)
		n++
	}
	return n
}

// verifC03Num reads one variable-size number in shortest form at b[p:]; next position or -1.
func verifC03Num(b []byte, p int) (uint64, int) {
	if p >= len(b) {
		return 0, -1
	}
	switch x := b[p]; {
	case x <= 0xfc:
		return uint64(x), p + 1
	case x == 0xfd:
		if p+3 > len(b) {
			return 0, -1
		}
		v := uint64(b[p+1])<<8 | uint64(b[p+2])
		if v <= 0xfc {
			return 0, -1
		}
		return v, p + 3
	case x == 0xfe:
		if p+5 > len(b) {
			return 0, -1
		}
		v := uint64(b[p+1])<<24 | uint64(b[p+2])<<16 | uint64(b[p+3])<<8 | uint64(b[p+4])
		if v <= 0xffff {
			return 0, -1
		}
		return v, p + 5
	}
	return 0, -1
}

var verifC03PartLens = []int{0, 1, 2, 250, 253}

func verifC03Parts(tag string) (enc.Wire, []byte) {
	k := 1 + verifChoice(tag+"nbuf", verifParam("maxbufs", 3))
	w := make(enc.Wire, k)
	var flat []byte
	for i := range w {
		n := verifC03PartLens[verifChoice(tag+"buflen", verifParam("npartlens", len(verifC03PartLens)))]
		if n <= 2 {
			w[i] = verifBytesN(tag+"buf", n)
		} else {
			w[i] = verifBytesUF(tag+"buf", n)
		}
		flat = append(flat, w[i]...)
	}
	return w, flat
}

func VerifC03_DataMultiBuffer() {
	name := verifC03Name("n", 0)
	cfg := &ndn.DataConfig{}
	if verifBool("hasFresh") {
		v := time.Duration(verifRange("freshMs", 0, 1<<40)) * time.Millisecond
		cfg.Freshness = &v
	}
	parts, flat := verifC03Parts("c")
	var ed, one *ndn.EncodedData
	var err, err1 error
	verifNoPanic("C03/multibuf/data-make-no-panic", func() { ed, err = Spec{}.MakeData(name, cfg, parts, nil) })
	verifAssert(err == nil && ed != nil, "C03/multibuf/data-make-succeeds")
	if err != nil || ed == nil {
		return
	}
	wire := ed.Wire.Join()
	verifNoPanic("C03/multibuf/data-make-one-buffer-no-panic", func() { one, err1 = Spec{}.MakeData(name, cfg, enc.Wire{flat}, nil) })
	if err1 == nil && one != nil {
		verifAssertBytesEq(wire, one.Wire.Join(), "C03/multibuf/data-bytes-independent-of-buffer-split")
	}
	verifAssert(verifC03Walk(wire) >= 2, "C03/multibuf/data-every-length-field-exact")
	var got ndn.Data
	var perr error
	var r enc.ParseReader
	switch verifChoice("reader", 3) {
	case 0:
		r = enc.NewBufferReader(wire)
	case 1:
		// the encoder's own segmentation (content buffers are separate segments)
		r = enc.NewWireReader(ed.Wire)
	default:
		cut := len(wire) - len(flat) + verifChoice("cutoff", 3) - 1
		if cut < 0 {
			cut = 0
		}
		if cut > len(wire) {
			cut = len(wire)
		}
		r = enc.NewWireReader(enc.Wire{wire[:cut], wire[cut:]})
	}
	verifNoPanic("C03/multibuf/data-read-no-panic", func() { got, _, perr = Spec{}.ReadData(r) })
	verifAssert(perr == nil && got != nil, "C03/multibuf/data-decodes")
	if perr != nil || got == nil {
		return
	}
	verifAssert(got.Name().Equal(name), "C03/multibuf/data-name")
	verifAssertBytesEq(got.Content().Join(), flat, "C03/multibuf/data-content")
	verifAssert((got.Freshness() == nil) == (cfg.Freshness == nil), "C03/multibuf/data-freshness-presence")
	verifObserve("wirelen", len(wire))
}

func VerifC03_InterestMultiBuffer() {
	name := verifC03Name("n", 1)
	cfg := &ndn.InterestConfig{CanBePrefix: verifBool("cbp")}
	if verifBool("hasNonce") {
		v := verifRange("nonce", 0, 1<<32-1)
		cfg.Nonce = &v
	}
	parts, flat := verifC03Parts("a")
	if len(flat) > 506 {
		// the ideal-hash model of SHA-256 relates digests of equal inputs only up to 512 bytes (DESIGN 3.2)
		return
	}
	var ei, one *ndn.EncodedInterest
	var err, err1 error
	verifNoPanic("C03/multibuf/interest-make-no-panic", func() { ei, err = Spec{}.MakeInterest(name, cfg, parts, nil) })
	verifAssert(err == nil && ei != nil, "C03/multibuf/interest-make-succeeds")
	if err != nil || ei == nil {
		return
	}
	wire := ei.Wire.Join()
	verifNoPanic("C03/multibuf/interest-make-one-buffer-no-panic", func() { one, err1 = Spec{}.MakeInterest(name, cfg, enc.Wire{flat}, nil) })
	if err1 == nil && one != nil {
		verifAssertBytesEq(wire, one.Wire.Join(), "C03/multibuf/interest-bytes-independent-of-buffer-split")
		verifAssert(ei.FinalName.Equal(one.FinalName), "C03/multibuf/interest-digest-name-independent-of-buffer-split")
	}
	verifAssert(verifC03Walk(wire) >= 2, "C03/multibuf/interest-every-length-field-exact")
	var got ndn.Interest
	var perr error
	var r enc.ParseReader
	if verifBool("segmented") {
		r = enc.NewWireReader(ei.Wire)
	} else {
		r = enc.NewBufferReader(wire)
	}
	verifNoPanic("C03/multibuf/interest-read-no-panic", func() { got, _, perr = Spec{}.ReadInterest(r) })
	verifAssert(perr == nil && got != nil, "C03/multibuf/interest-decodes")
	if perr != nil || got == nil {
		return
	}
	verifAssert(got.Name().Equal(ei.FinalName), "C03/multibuf/interest-name")
	verifAssertBytesEq(got.AppParam().Join(), flat, "C03/multibuf/interest-app-param")
	verifObserve("wirelen", len(wire))
}
