//verif:dir std/encoding
package encoding

// Full-width kernel lemmas: TLNum / Nat encode->decode for every 64-bit value.

func VerifC03_TLNumRT() {
	v := TLNum(verifU64("v"))
	n := v.EncodingLength()
	buf := make([]byte, 9)
	w := 0
	verifNoPanic("C03/tlnum-rt/no-panic", func() { w = v.EncodeInto(buf) })
	verifAssert(w == n, "C03/tlnum-rt/written-equals-announced")
	var v2 TLNum
	var p int
	verifNoPanic("C03/tlnum-rt/no-panic", func() { v2, p = ParseTLNum(buf) })
	verifAssert(v2 == v && p == n, "C03/tlnum-rt/parse")
	v3, err := ReadTLNum(NewBufferReader(buf[:n]))
	verifAssert(err == nil && v3 == v, "C03/tlnum-rt/read")
	verifObserve("n", n)
	verifObserve("buf", buf[:n])
}

func VerifC03_NatRT() {
	v := Nat(verifU64("v"))
	n := v.EncodingLength()
	b := v.Bytes()
	verifAssert(len(b) == n, "C03/nat-rt/len")
	v2, p, err := ParseNat(b)
	verifAssert(err == nil && v2 == v && p == n, "C03/nat-rt/parse")
	verifObserve("b", b)
}
