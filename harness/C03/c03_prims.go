//verif:dir std/encoding
package encoding

// Full-width kernel lemmas: TLNum / Nat encode->decode for every 64-bit value.

func VerifC03_TLNumRT() {
	v := TLNum(verifU64("v"))
	n := v.EncodingLength()
	buf := make([]byte, 9)
	w := 0
	verifNoPanic("C03/tlnum-rt/no-panic", func() { w = v.EncodeInto(buf) })
	verifAssert(w == n, "C03/tlnum-rt/written-equals-announced")
	var v2 TLNum
	var p int
	verifNoPanic("C03/tlnum-rt/no-panic", func() { v2, p = ParseTLNum(buf) })
	verifAssert(v2 == v && p == n, "C03/tlnum-rt/parse")
	v3, err := ReadTLNum(NewBufferReader(buf[:n]))
	verifAssert(err == nil && v3 == v, "C03/tlnum-rt/read")
	verifObserve("n", n)
	verifObserve("buf", buf[:n])
}

func VerifC03_NatRT() {
	v := Nat(verifU64("v"))
	n := v.EncodingLength()
	b := v.Bytes()
	verifAssert(len(b) == n, "C03/nat-rt/len")
	v2, p, err := ParseNat(b)
	verifAssert(err == nil && v2 == v && p == n, "C03/nat-rt/parse")
	verifObserve("b", b)
}

// ShrinkLength (used by the encoders when a signature comes out shorter than estimated): for every type, every
// 64-bit length up to 2^32 and every shrink amount below it, the returned buffer starts with the same type,
// carries exactly length-shrink in shortest form, ends where the input ended and leaves the value bytes alone.
func VerifC03_ShrinkLength() {
	typ := TLNum(verifRange("typ", 1, 0xfc))
	l := verifRange("l", 1, 1<<32)
	shrink := verifRange("shrink", 0, 1<<32)
	verifAssume(shrink < l)
	// header of the announced length followed by 4 value bytes (the function only touches the header)
	hdr := make([]byte, 16)
	n := typ.EncodeInto(hdr)
	n += TLNum(l).EncodeInto(hdr[n:])
	val := verifBytesN("val", 4)
	buf := append(hdr[:n:n], val...)
	var out Buffer
	verifNoPanic("C03/shrink/no-panic", func() { out = ShrinkLength(buf, int(shrink)) })
	t2, s1 := ParseTLNum(out)
	l2, s2 := ParseTLNum(out[s1:])
	verifAssert(t2 == typ, "C03/shrink/type-kept")
	verifAssert(uint64(l2) == l-shrink, "C03/shrink/length-is-reduced-by-the-amount")
	verifAssert(s2 == TLNum(l-shrink).EncodingLength(), "C03/shrink/length-in-shortest-form")
	verifAssertBytesEq(out[s1+s2:], val, "C03/shrink/value-untouched-and-buffer-ends-where-it-did")
	verifObserve("outlen", len(out))
}
