//verif:dir std/encoding
package encoding

// Component / Name encoders with SYMBOLIC value lengths (opaque contents):
// the length crosses the 1/3-byte TLV length boundary without enumerating bytes.

func VerifC03_ComponentRT() {
	typ := TLNum(verifRange("typ", 1, 1<<32))
	val := verifBytes("val", verifParam("maxval", 70000))
	c := Component{Typ: typ, Val: val}
	n := c.EncodingLength()
	buf := make([]byte, n)
	w := 0
	verifNoPanic("C03/component-rt/encode-no-panic", func() { w = c.EncodeInto(buf) })
	verifAssert(w == n, "C03/component-rt/written-equals-announced")
	// independent TLV header walk (reference): T then L in TLNum form
	t2, p1 := ParseTLNum(buf)
	verifAssert(t2 == typ, "C03/component-rt/type-field")
	l2, p2 := TLNum(0), 0
	verifNoPanic("C03/component-rt/length-field-wellformed", func() { l2, p2 = ParseTLNum(buf[p1:]) })
	verifAssert(int(l2) == len(val), "C03/component-rt/length-field-exact")
	verifAssert(p1+p2+len(val) == n, "C03/component-rt/total-length-exact")
	var c2 Component
	var err error
	verifNoPanic("C03/component-rt/decode-no-panic", func() { c2, err = ReadComponent(NewBufferReader(buf)) })
	verifAssert(err == nil, "C03/component-rt/decodes")
	verifAssert(c2.Typ == typ, "C03/component-rt/decoded-type")
	verifAssertBytesEq(c2.Val, val, "C03/component-rt/decoded-value")
	verifObserve("n", n)
}

func VerifC03_NameBytesRT() {
	nc := verifChoice("ncomp", verifParam("maxcomp", 3)+1)
	name := make(Name, nc)
	total := 0
	for i := 0; i < nc; i++ {
		name[i] = Component{Typ: TLNum(verifRange("typ", 1, 65535)), Val: verifBytes("val", verifParam("maxval", 70000))}
		total += name[i].EncodingLength()
	}
	var b []byte
	verifNoPanic("C03/name-bytes/no-panic", func() { b = name.Bytes() })
	t, p1 := ParseTLNum(b)
	verifAssert(t == TypeName, "C03/name-bytes/type")
	l, p2 := TLNum(0), 0
	verifNoPanic("C03/name-bytes/length-prefix-wellformed", func() { l, p2 = ParseTLNum(b[p1:]) })
	verifAssert(int(l) == len(b)-p1-p2, "C03/name-bytes/length-prefix")
	var n2 Name
	var err error
	verifNoPanic("C03/name-bytes/decode-no-panic", func() { n2, err = NameFromBytes(b) })
	verifAssert(err == nil, "C03/name-bytes/decodes")
	verifAssert(len(n2) == nc, "C03/name-bytes/component-count")
	for i := 0; i < nc && i < len(n2); i++ {
		verifAssert(n2[i].Typ == name[i].Typ, "C03/name-bytes/decoded-type")
		verifAssertBytesEq(n2[i].Val, name[i].Val, "C03/name-bytes/decoded-value")
	}
	verifObserve("len", len(b))
}
