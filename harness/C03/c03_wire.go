//verif:dir std/encoding
package encoding

// C03: the segment-crossing reader agrees with a contiguous buffer.  A wire of 1..maxseg segments (each of 0..maxseglen
// symbolic bytes, empty segments included) is compared, operation by operation, with the flat concatenation.

func verifC03Wire() (Wire, []byte) {
	ns := 1 + verifChoice("nseg", verifParam("maxseg", 4))
	w := make(Wire, ns)
	var flat []byte
	for i := range w {
		w[i] = verifBytesN("seg", verifChoice("seglen", verifParam("maxseglen", 2)+1))
		flat = append(flat, w[i]...)
	}
	return w, flat
}

func verifC03Join(w Wire) []byte {
	var out []byte
	for _, b := range w {
		out = append(out, b...)
	}
	return out
}

// Range(start, end) returns exactly flat[start:end]
func VerifC03_WireRange() {
	w, flat := verifC03Wire()
	r := NewWireReader(w)
	start := verifInt("start", 0, 16)
	end := verifInt("end", 0, 16)
	verifAssume(start <= end && end <= len(flat))
	var got Wire
	verifNoPanic("C03/wire/range-no-panic", func() { got = r.Range(start, end) })
	verifAssertBytesEq(verifC03Join(got), flat[start:end], "C03/wire/range-equals-contiguous-bytes")
	verifObserve("len", len(verifC03Join(got)))
}

// Skip(a) followed by one read operation behaves as on the contiguous buffer
func VerifC03_WireSkipRead() {
	w, flat := verifC03Wire()
	r := NewWireReader(w)
	a := verifInt("skip", 0, 16)
	var err error
	verifNoPanic("C03/wire/skip-no-panic", func() { err = r.Skip(a) })
	if a <= len(flat) {
		verifAssert(err == nil, "C03/wire/skip-within-the-wire-succeeds")
		verifAssert(r.Pos() == a, "C03/wire/skip-position")
	} else {
		verifAssert(err != nil, "C03/wire/skip-past-the-end-fails")
		return
	}
	n := verifInt("n", 0, 16)
	rest := flat[a:]
	switch verifChoice("op", 4) {
	case 0:
		var b []byte
		verifNoPanic("C03/wire/readbuf-no-panic", func() { b, err = r.ReadBuf(n) })
		if n <= len(rest) {
			verifAssert(err == nil, "C03/wire/readbuf-within-the-wire-succeeds")
			verifAssertBytesEq(b, rest[:n], "C03/wire/readbuf-equals-contiguous-bytes")
		} else {
			verifAssert(err != nil, "C03/wire/readbuf-past-the-end-fails")
		}
	case 1:
		var ww Wire
		verifNoPanic("C03/wire/readwire-no-panic", func() { ww, err = r.ReadWire(n) })
		if n <= len(rest) {
			verifAssert(err == nil, "C03/wire/readwire-within-the-wire-succeeds")
			verifAssertBytesEq(verifC03Join(ww), rest[:n], "C03/wire/readwire-equals-contiguous-bytes")
		} else {
			verifAssert(err != nil, "C03/wire/readwire-past-the-end-fails")
		}
	case 2:
		var c byte
		verifNoPanic("C03/wire/readbyte-no-panic", func() { c, err = r.ReadByte() })
		if len(rest) > 0 {
			verifAssert(err == nil && c == rest[0], "C03/wire/readbyte-equals-contiguous-byte")
		} else {
			verifAssert(err != nil, "C03/wire/readbyte-at-the-end-fails")
		}
	case 3:
		var d ParseReader
		verifNoPanic("C03/wire/delegate-no-panic", func() { d = r.Delegate(n) })
		if n <= len(rest) {
			var b []byte
			verifNoPanic("C03/wire/delegate-read-no-panic", func() { b, err = d.ReadBuf(n) })
			verifAssert(err == nil, "C03/wire/delegate-covers-the-requested-bytes")
			verifAssertBytesEq(b, rest[:n], "C03/wire/delegate-equals-contiguous-bytes")
			verifAssert(r.Pos() == a+n, "C03/wire/delegate-advances-the-parent")
		}
	}
}
