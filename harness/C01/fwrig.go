//verif:dir fw/fw
package fw

import (
	"encoding/binary"
	"time"

	"github.com/named-data/ndnd/fw/core"
	"github.com/named-data/ndnd/fw/defn"
	"github.com/named-data/ndnd/fw/dispatch"
	"github.com/named-data/ndnd/fw/table"
	enc "github.com/named-data/ndnd/std/encoding"
	spec "github.com/named-data/ndnd/std/ndn/spec_2022"
)

// Forwarding rig shared by C01 / C02 / C09 / C08: a real fw.Thread with recording faces, a FIB filled
// through the real API, and a history of Interest/Data packets built from solver variables.
// The oracle is the pending-Interest model of DESIGN.md Appendix A.1, written from the statements.

type verifSend struct {
	face     uint64
	isData   bool
	name     enc.Name
	token    []byte
	hopLimit int // -1 if absent
	nonce    uint32
}

type verifFace struct {
	id    uint64
	scope defn.Scope
	link  defn.LinkType
	log   *[]verifSend
}

func (f *verifFace) String() string          { return "verif-face" }
func (f *verifFace) SetFaceID(id uint64)     { f.id = id }
func (f *verifFace) FaceID() uint64          { return f.id }
func (f *verifFace) LocalURI() *defn.URI     { return nil }
func (f *verifFace) RemoteURI() *defn.URI    { return nil }
func (f *verifFace) Scope() defn.Scope       { return f.scope }
func (f *verifFace) LinkType() defn.LinkType { return f.link }
func (f *verifFace) MTU() int                { return 8800 }
func (f *verifFace) State() defn.State       { return defn.Up }
func (f *verifFace) SendPacket(out dispatch.OutPkt) {
	s := verifSend{face: f.id, hopLimit: -1}
	s.token = append([]byte{}, out.PitToken...)
	if out.Pkt.L3.Data != nil {
		s.isData = true
		s.name = out.Pkt.L3.Data.NameV
	} else if out.Pkt.L3.Interest != nil {
		s.name = out.Pkt.L3.Interest.NameV
		if out.Pkt.L3.Interest.HopLimitV != nil {
			s.hopLimit = int(*out.Pkt.L3.Interest.HopLimitV)
		}
		if out.Pkt.L3.Interest.NonceV != nil {
			s.nonce = *out.Pkt.L3.Interest.NonceV
		}
	}
	*f.log = append(*f.log, s)
}

type verifPending struct {
	name      enc.Name
	cbp, mbf  bool
	face      uint64
	downTok   []byte
	nonce     uint32
	expiry    time.Time
	live      bool
	upToken   []byte // token the forwarder attached upstream for this entry (learned from its sends)
	lastOutAt time.Time
	hasOut    bool
	outNonce  uint32
	staleTok  []byte // token of an earlier, no longer pending Interest of the same PIT entry: if the forwarder has not yet
	// reaped that entry this Interest joined it and is reachable through the old token; allowed, not required
	satisfied bool // consumed by a Data packet
	maybe     bool // the forwarder may have dropped this Interest (its nonce may be on the dead nonce list): nothing is required or forbidden for it
}

type verifSentNonce struct {
	name  enc.Name
	nonce uint32
}

type verifRig struct {
	sentNonces []verifSentNonce // (name, nonce) of every Interest forwarded upstream: candidates for the dead nonce list
	check     string
	th        *Thread
	faces     []*verifFace
	log       []verifSend
	pend      []*verifPending
	routes    []verifRigRoute
	multicast bool
	cacheOn   bool
	lite      bool
	cached    []enc.Name
}

type verifRigRoute struct {
	prefix enc.Name
	face   uint64
	cost   uint64
}

var verifLocalhost = []byte("localhost")

func verifRigComp(tag string, allowLocalhost bool) enc.Component {
	if allowLocalhost && verifBool(tag+"lh") {
		return enc.Component{Typ: enc.TypeGenericNameComponent, Val: verifLocalhost}
	}
	return enc.Component{Typ: enc.TypeGenericNameComponent, Val: verifBytesN(tag, 1)}
}

func verifRigName(tag string, minLen, maxLen int, allowLocalhost bool) enc.Name {
	d := minLen + verifChoice(tag+"len", maxLen-minLen+1)
	n := make(enc.Name, d)
	for i := range n {
		n[i] = verifRigComp(tag, allowLocalhost && i == 0)
	}
	return n
}

func verifIsLocalhost(n enc.Name) bool {
	return len(n) > 0 && string(n[0].Val) == "localhost"
}

func verifNewRig(allowLocalhost bool, check string) *verifRig {
	r := &verifRig{check: check}
	cfg := core.DefaultConfig()
	r.lite = verifParam("lite", 0) != 0
	if !r.lite {
		r.cacheOn = verifBool("cache")
	} else {
		r.cacheOn = verifParam("litecache", 0) != 0
	}
	cfg.Tables.ContentStore.Admit = r.cacheOn
	cfg.Tables.ContentStore.Serve = r.cacheOn
	cfg.Tables.ContentStore.Capacity = 8
	core.LoadConfig(cfg, "")
	table.Configure()
	Configure()
	table.CreateFIBTable("nametree")
	if !r.lite || check == "C02" {
		r.multicast = verifBool("multicast")
	}
	if r.multicast {
		s, _ := enc.NameFromStr("/localhost/nfd/strategy/multicast/v=1")
		table.FibStrategyTable.SetStrategyEnc(enc.Name{}, s)
	}
	r.th = NewThread(0)
	nf := verifParam("faces", 3)
	for i := 0; i < nf; i++ {
		f := &verifFace{id: uint64(i + 1), scope: defn.NonLocal, link: defn.PointToPoint, log: &r.log}
		if check == "C09" && verifBool("local") { // scopes matter for C09 only; elsewhere all faces are non-local
			f.scope = defn.Local
		}
		r.faces = append(r.faces, f)
		dispatch.AddFace(f.id, f)
	}
	// FIB: up to `routes` next hops through the real API
	nr := 1
	if !r.lite {
		nr = verifChoice("nroutes", verifParam("routes", 2)+1)
	}
	for i := 0; i < nr; i++ {
		var rt verifRigRoute
		if r.lite { // one default route to the last face
			rt = verifRigRoute{prefix: enc.Name{}, face: uint64(nf), cost: 1}
		} else {
			rt = verifRigRoute{prefix: verifRigName("rp", 0, verifParam("rdepth", 1), allowLocalhost), face: uint64(1 + verifChoice("rface", nf)), cost: verifRange("rcost", 0, 10)}
		}
		table.FibStrategyTable.InsertNextHopEnc(rt.prefix, rt.face, rt.cost)
		dup := false
		for k := range r.routes {
			if r.routes[k].face == rt.face && r.routes[k].prefix.Equal(rt.prefix) {
				r.routes[k].cost = rt.cost
				dup = true
			}
		}
		if !dup {
			r.routes = append(r.routes, rt)
		}
	}
	return r
}

// next hops of the longest prefix of n that has next hops
func (r *verifRig) lpm(n enc.Name) []verifRigRoute {
	for l := len(n); l >= 0; l-- {
		var out []verifRigRoute
		for _, rt := range r.routes {
			if rt.prefix.Equal(n[:l]) {
				out = append(out, rt)
			}
		}
		if len(out) > 0 {
			return out
		}
	}
	return nil
}

func (r *verifRig) face(id uint64) *verifFace { return r.faces[id-1] }

func (r *verifRig) expire() {
	now := time.Now()
	for _, p := range r.pend {
		if p.live && !p.expiry.After(now) {
			p.live = false
		}
	}
}

func (r *verifRig) sameEntry(p *verifPending, n enc.Name, cbp, mbf bool) bool {
	return p.cbp == cbp && p.mbf == mbf && p.name.Equal(n)
}

type verifInterestIn struct {
	name     enc.Name
	cbp, mbf bool
	face     uint64
	nonce    uint32
	hasNonce bool
	lifetime time.Duration
	hop      int // -1 absent
	tok      []byte
	nextHop  int // 0 = none
	hint     enc.Name
}

func (r *verifRig) genInterest(allowLocalhost bool) verifInterestIn {
	in := verifInterestIn{hop: -1}
	in.name = verifRigName("in", verifParam("minlen", 1), verifParam("depth", 2), allowLocalhost)
	in.cbp = verifBool("cbp")
	in.face = uint64(1 + verifChoice("inface", len(r.faces)))
	in.hasNonce = true
	in.nonce = uint32(verifRange("nonce", 0, 3))
	in.lifetime = time.Duration(verifRange("lifetime", 1, 4000)) * time.Millisecond
	switch r.check {
	case "C01":
		if r.lite {
			in.tok = verifBytesN("dtok", 2)
		} else {
			in.mbf = verifBool("mbf")
			if verifBool("hastok") {
				in.tok = verifBytesN("dtok", 2)
			}
		}
	case "C09":
		if verifParam("nhfi", 0) != 0 && verifBool("nhfi") {
			in.nextHop = 1 + verifChoice("nhface", len(r.faces))
		}
		if verifParam("hints", 0) != 0 && verifBool("hashint") {
			in.hint = verifRigName("fh", 1, 1, allowLocalhost)
		}
	case "C02":
		if r.lite {
			break // scripted shapes: plain Interests with a nonce, no hop limit
		}
		if verifParam("nhfi", 0) != 0 && verifBool("nhfi") {
			in.nextHop = 1 + verifChoice("nhface", len(r.faces))
		}
		in.hasNonce = !verifBool("nononce")
		if verifBool("hashop") {
			in.hop = int(verifRange("hop", 0, 2))
		}
	}
	return in
}

// process one Interest through the real pipeline and check the C02 / C09 obligations
func (r *verifRig) interest(in verifInterestIn, check string) {
	r.expire()
	hopv := byte(0)
	i := &spec.Interest{NameV: in.name, CanBePrefixV: in.cbp, MustBeFreshV: in.mbf, InterestLifetimeV: &in.lifetime}
	if in.hasNonce {
		nv := in.nonce
		i.NonceV = &nv
	}
	if in.hop >= 0 {
		hopv = byte(in.hop)
		i.HopLimitV = &hopv
	}
	if in.hint != nil {
		i.ForwardingHintV = &spec.Links{Names: []enc.Name{in.hint}}
	}
	pkt := &defn.Pkt{Name: in.name, L3: &spec.Packet{Interest: i}, Raw: []byte{0x05, 0x00}, PitToken: in.tok, IncomingFaceID: &in.face}
	if in.nextHop != 0 {
		nh := uint64(in.nextHop)
		pkt.NextHopFaceID = &nh
	}
	before := len(r.log)
	pitBefore, csBefore := r.th.pitCS.PitSize(), r.th.pitCS.CsSize()
	verifNoPanic(check+"/interest-no-panic", func() { r.th.processIncomingInterest(pkt) })
	sends := r.log[before:]
	inFace := r.face(in.face)
	now := time.Now()

	// ---- C09: scope
	for _, s := range sends {
		if r.face(s.face).scope == defn.NonLocal {
			verifAssert(!verifIsLocalhost(s.name), "C09/no-localhost-packet-sent-on-non-local-face")
		}
	}
	if inFace.scope == defn.NonLocal && verifIsLocalhost(in.name) {
		verifAssert(len(sends) == 0, "C09/localhost-interest-from-non-local-face-not-forwarded")
		verifAssert(r.th.pitCS.PitSize() == pitBefore && r.th.pitCS.CsSize() == csBefore, "C09/localhost-interest-from-non-local-face-changes-no-state")
		return
	}

	// ---- drop conditions (C02)
	dropped := (in.hop == 0) || !in.hasNonce
	var entryLive []*verifPending
	for _, p := range r.pend {
		if p.live && r.sameEntry(p, in.name, in.cbp, in.mbf) {
			entryLive = append(entryLive, p)
		}
	}
	for _, p := range entryLive {
		if p.face != in.face && p.nonce == in.nonce && in.hasNonce {
			dropped = true // same nonce still pending from another face: loop
		}
	}
	nInterests := 0
	for _, s := range sends {
		if !s.isData {
			nInterests++
		}
	}
	// An Interest forwarded earlier under this name and nonce may by now be on the dead nonce list (its PIT entry
	// expired or was satisfied); the forwarder then drops the newcomer.  The model does not predict which.
	maybeDead := false
	if in.hasNonce && nInterests == 0 {
		for _, sn := range r.sentNonces {
			if sn.nonce == in.nonce && sn.name.Equal(in.name) {
				maybeDead = true
			}
		}
	}
	if nInterests > 0 {
		r.sentNonces = append(r.sentNonces, verifSentNonce{in.name, in.nonce})
	}
	if dropped {
		if check == "C02" {
			verifAssert(nInterests == 0, "C02/dropped-interest-is-not-forwarded")
		}
		return
	}
	// ---- consumer-chosen next hop: the Interest goes to that face (if at all) and nowhere else
	if in.nextHop != 0 {
		for _, s := range sends {
			if !s.isData && check == "C02" {
				verifAssert(s.face == uint64(in.nextHop), "C02/consumer-chosen-next-hop-is-the-only-upstream")
			}
		}
		r.pend = append(r.pend, &verifPending{name: in.name, cbp: in.cbp, mbf: in.mbf, face: in.face, downTok: in.tok, live: true, nonce: in.nonce, expiry: now.Add(in.lifetime)})
		return
	}
	// ---- every Interest send goes to a FIB next hop of the longest-prefix entry, never back out of the p2p arrival face
	hops := r.lpm(in.name)
	for _, s := range sends {
		if s.isData {
			continue
		}
		ok := false
		for _, h := range hops {
			if h.face == s.face {
				ok = true
			}
		}
		if check == "C02" {
			verifAssert(ok, "C02/interest-sent-only-to-next-hops-of-longest-prefix-entry")
			verifAssert(s.face != in.face, "C02/interest-never-sent-back-to-p2p-arrival-face")
			if in.hop >= 0 {
				verifAssert(s.hopLimit == in.hop-1, "C02/hop-limit-reduced-by-one")
			}
		}
	}
	// record the pending Interest (create / refresh)
	var mine *verifPending
	for _, p := range entryLive {
		if p.face == in.face {
			mine = p
		}
	}
	first := len(entryLive) == 0
	retransmission := mine != nil
	if mine == nil {
		mine = &verifPending{name: in.name, cbp: in.cbp, mbf: in.mbf, face: in.face, downTok: in.tok, live: true}
		for _, p := range entryLive { // the PIT token and the out-records belong to the entry, which this Interest joins
			mine.upToken, mine.hasOut, mine.lastOutAt, mine.outNonce = p.upToken, p.hasOut, p.lastOutAt, p.outNonce
		}
		if len(entryLive) == 0 {
			for _, p := range r.pend {
				if !p.live && p.upToken != nil && r.sameEntry(p, in.name, in.cbp, in.mbf) {
					mine.staleTok = p.upToken
				}
			}
		}
		r.pend = append(r.pend, mine)
	}
	if retransmission {
		// the forwarder records the previous nonce of a refreshed in-record on the dead nonce list
		r.sentNonces = append(r.sentNonces, verifSentNonce{in.name, mine.nonce})
	}
	mine.nonce = in.nonce
	mine.expiry = now.Add(in.lifetime)
	if maybeDead {
		mine.maybe = true
	}
	// cache hit expectation: only knowable when nothing relevant is cached (weak) or the exact name is cached
	cachedHit := false
	if r.cacheOn && !retransmission {
		for _, c := range r.cached {
			if c.Equal(in.name) && !in.mbf {
				cachedHit = true
			}
		}
	}
	nData := len(sends) - nInterests
	if cachedHit {
		if maybeDead && nData == 0 && nInterests == 0 {
			// the dead nonce list is consulted before the content store: such an Interest may simply be dropped
			mine.maybe = true
			return
		}
		if check == "C01" {
			verifAssert(nData == 1 && sends[0].face == in.face, "C01/cache-hit-goes-to-the-requesting-face-alone")
			verifAssertBytesEq(sends[0].token, in.tok, "C01/cache-hit-carries-the-requesters-token")
		}
		if check == "C02" {
			verifAssert(nInterests == 0, "C02/cached-content-is-not-forwarded-upstream")
		}
		mine.live = false
		return
	}
	if nData > 0 {
		// served from cache by a prefix / freshness rule this model does not predict: requester only
		if check == "C01" {
			for _, s := range sends {
				if s.isData {
					verifAssert(s.face == in.face, "C01/cache-hit-goes-to-the-requesting-face-alone")
				}
			}
		}
		mine.live = false
		return
	}
	// usable next hops
	var usable []verifRigRoute
	for _, h := range hops {
		if h.face == in.face {
			continue
		}
		if in.hop == 1 && r.face(h.face).scope == defn.NonLocal {
			continue // hop limit would be 0 on a non-local face
		}
		usable = append(usable, h)
	}
	// learn the upstream token / out-record time from the sends
	for _, s := range sends {
		if !s.isData {
			for _, p := range r.pend {
				if p.live && r.sameEntry(p, in.name, in.cbp, in.mbf) {
					p.upToken = s.token
					p.staleTok = nil
				}
			}
		}
	}
	// suppression: a different-nonce retransmission within the suppression interval is aggregated
	suppressed := false
	for _, p := range entryLive {
		if p.hasOut && p.outNonce != in.nonce && p.lastOutAt.Add(500*time.Millisecond).After(now) {
			suppressed = true
		}
	}
	// an earlier Interest of this entry whose own lifetime is over may have left an out-record behind (the entry
	// lives as long as its longest-lived record): suppression then still applies, but the model cannot know
	maybeSuppressed := false
	for _, p := range r.pend {
		if !p.live && p.hasOut && r.sameEntry(p, in.name, in.cbp, in.mbf) && p.outNonce != in.nonce && p.lastOutAt.Add(500*time.Millisecond).After(now) {
			maybeSuppressed = true
		}
	}
	if check == "C02" {
		if suppressed {
			verifAssert(nInterests == 0, "C02/retransmission-inside-suppression-interval-is-aggregated")
		} else if first && len(usable) > 0 && !maybeDead && !maybeSuppressed {
			verifAssert(nInterests >= 1, "C02/first-interest-with-usable-next-hop-is-forwarded")
		}
		if nInterests > 0 && !r.multicast {
			verifAssert(nInterests == 1, "C02/best-route-uses-one-next-hop")
			for _, u := range usable {
				for _, h := range hops {
					if h.face == sends[0].face {
						verifAssert(h.cost <= u.cost, "C02/best-route-uses-lowest-cost-usable-next-hop")
					}
				}
			}
		}
		if nInterests > 0 && r.multicast && first {
			verifAssert(nInterests == len(usable), "C02/multicast-uses-all-usable-next-hops")
		}
	}
	if nInterests > 0 {
		for _, p := range r.pend {
			if p.live && r.sameEntry(p, in.name, in.cbp, in.mbf) {
				p.hasOut, p.lastOutAt, p.outNonce = true, now, in.nonce
			}
		}
	}
}

type verifDataIn struct {
	name  enc.Name
	face  uint64
	tok   []byte
	fresh time.Duration
}

func (r *verifRig) genData(allowLocalhost bool) verifDataIn {
	d := verifDataIn{}
	d.name = verifRigName("dn", 1, verifParam("depth", 2)+1, allowLocalhost)
	d.face = uint64(1 + verifChoice("dface", len(r.faces)))
	d.fresh = time.Duration(verifRange("fresh", 0, 4000)) * time.Millisecond
	kinds := 4
	if r.check != "C01" || r.lite {
		kinds = 2
	}
	switch verifChoice("dtokkind", kinds) {
	case 1: // echo of a token this forwarder issued
		var cands [][]byte
		for _, p := range r.pend {
			if p.upToken != nil {
				cands = append(cands, p.upToken)
			}
		}
		if len(cands) > 0 {
			d.tok = cands[verifChoice("whichtok", len(cands))]
		}
	case 2: // foreign 6-byte token: not one of this forwarder's (32-bit random) entry tokens
		d.tok = verifBytesN("ftok", 6)
		verifDistinctFromRandom(binary.BigEndian.Uint32(d.tok[2:6]))
	case 3: // token of another length: shorter, or longer than this forwarder's 6 bytes - then possibly starting with one of its tokens
		if verifBool("longtok") {
			d.tok = verifBytesN("otok8", 8)
			for _, p := range r.pend {
				if p.upToken != nil && verifBool("startsWithOurs") {
					d.tok = append(append([]byte{}, p.upToken...), 0x5a, 0xa5)
					break
				}
			}
		} else {
			d.tok = verifBytesN("otok", 3)
		}
	}
	return d
}

func (r *verifRig) data(d verifDataIn, check string) {
	r.expire()
	wire := verifRigDataWire(d.name)
	sd := &spec.Data{NameV: d.name, MetaInfo: &spec.MetaInfo{FreshnessPeriod: &d.fresh}}
	pkt := &defn.Pkt{Name: d.name, L3: &spec.Packet{Data: sd}, Raw: wire, PitToken: d.tok, IncomingFaceID: &d.face}
	before := len(r.log)
	pitBefore, csBefore := r.th.pitCS.PitSize(), r.th.pitCS.CsSize()
	verifNoPanic(check+"/data-no-panic", func() { r.th.processIncomingData(pkt) })
	sends := r.log[before:]
	inFace := r.face(d.face)
	for _, s := range sends {
		if r.face(s.face).scope == defn.NonLocal {
			verifAssert(!verifIsLocalhost(s.name), "C09/no-localhost-packet-sent-on-non-local-face")
		}
	}
	if inFace.scope == defn.NonLocal && verifIsLocalhost(d.name) {
		verifAssert(len(sends) == 0, "C09/localhost-data-from-non-local-face-not-forwarded")
		verifAssert(r.th.pitCS.PitSize() == pitBefore && r.th.pitCS.CsSize() == csBefore, "C09/localhost-data-from-non-local-face-changes-no-state")
		return
	}
	if r.cacheOn {
		r.cached = append(r.cached, d.name)
	}
	// satisfied set
	var sat []*verifPending
	if len(d.tok) == 6 {
		for _, p := range r.pend {
			if p.live && p.upToken != nil && verifBytesSame(p.upToken[2:6], d.tok[2:6]) {
				sat = append(sat, p)
			}
		}
	} else {
		for _, p := range r.pend {
			if p.live && (p.name.Equal(d.name) || (p.cbp && p.name.IsPrefix(d.name))) {
				sat = append(sat, p)
			}
		}
	}
	// pending Interests that joined a not yet reaped entry of an earlier Interest are reachable through its token
	allowed := append([]*verifPending(nil), sat...)
	if len(d.tok) == 6 {
		for _, p := range r.pend {
			if p.live && p.staleTok != nil && verifBytesSame(p.staleTok[2:6], d.tok[2:6]) {
				allowed = append(allowed, p)
				p.maybe = true
			}
		}
	}
	// the dead nonce list records the Data name with the nonces sent upstream for the satisfied entry
	for _, p := range allowed {
		if p.hasOut {
			r.sentNonces = append(r.sentNonces, verifSentNonce{d.name, p.outNonce})
		}
	}
	if check == "C01" {
		for _, s := range sends {
			verifAssert(s.isData, "C01/data-arrival-emits-only-data")
			ok := false
			for _, p := range allowed {
				if p.face == s.face {
					ok = true
				}
			}
			verifAssert(ok, "C01/data-emitted-only-on-faces-with-a-satisfied-pending-interest")
		}
		for _, p := range sat {
			if p.face == d.face || p.maybe {
				continue // the arrival face itself: not required either way
			}
			if r.face(p.face).scope == defn.NonLocal && verifIsLocalhost(d.name) {
				continue
			}
			n := 0
			for _, s := range sends {
				if s.face == p.face && verifBytesSame(s.token, p.downTok) {
					n++
				}
			}
			verifAssert(n >= 1, "C01/every-other-face-with-a-satisfied-pending-interest-gets-the-data-with-its-token")
		}
		// exactly one copy per pending Interest per face
		for _, f := range r.faces {
			want := 0
			for _, p := range allowed {
				if p.face == f.id {
					want++
				}
			}
			got := 0
			for _, s := range sends {
				if s.face == f.id {
					got++
				}
			}
			if f.id != d.face {
				verifAssert(got <= want, "C01/at-most-one-copy-per-pending-interest")
			}
		}
	}
	for _, p := range sat {
		p.live = false
		p.satisfied = true
	}
	if check == "C08" {
		// "promptly once it is satisfied": the reaper's next run (no time needs to pass) removes every entry this Data
		// satisfied; what remains are entries holding an Interest that no Data has consumed (pending, or expired and
		// not reaped yet)
		verifNoPanic("C08/reaper-no-panic", func() { r.th.pitCS.Update() })
		var groups []*verifPending
		for _, p := range r.pend {
			if p.satisfied {
				continue
			}
			dup := false
			for _, g := range groups {
				if r.sameEntry(g, p.name, p.cbp, p.mbf) {
					dup = true
				}
			}
			if !dup {
				groups = append(groups, p)
			}
		}
		verifAssert(r.th.pitCS.PitSize() <= len(groups), "C08/satisfied-pit-entries-are-removed-promptly")
	}
}

// a well-formed Data packet with the given name and one content byte
func verifRigDataWire(n enc.Name) []byte {
	nl := 0
	for _, c := range n {
		nl += 2 + len(c.Val)
	}
	w := []byte{0x06, byte(2 + nl + 3), 0x07, byte(nl)}
	for _, c := range n {
		w = append(w, 0x08, byte(len(c.Val)))
		w = append(w, c.Val...)
	}
	return append(w, 0x15, 0x01, 0x2a)
}

func verifBytesSame(a, b []byte) bool {
	if len(a) != len(b) {
		return false
	}
	for i := range a {
		if a[i] != b[i] {
			return false
		}
	}
	return true
}

func verifFwHistory(check string, allowLocalhost bool) {
	r := verifNewRig(allowLocalhost, check)
	k := verifParam("packets", 2)
	for step := 0; step < k; step++ {
		switch verifChoice("kind", 3) {
		case 0:
			r.interest(r.genInterest(allowLocalhost), check)
		case 1:
			r.data(r.genData(allowLocalhost), check)
		case 2:
			verifAdvance(int64(verifRange("adv", 0, 5000)) * int64(time.Millisecond))
			r.th.pitCS.Update()
		}
	}
}

func VerifC01_FwHistory() { verifFwHistory("C01", false) }

// verifFwScript runs one of a list of fixed history shapes (I = Interest, D = Data, A = clock advance with
// a PIT sweep), every parameter of every step symbolic as in verifFwHistory.  Shapes reach deeper histories
// than the free enumeration can afford.
func verifFwScript(check string, allowLocalhost bool, shapes []string) *verifRig {
	r := verifNewRig(allowLocalhost, check)
	shape := shapes[verifChoice("shape", len(shapes))]
	for _, k := range shape {
		switch k {
		case 'I':
			r.interest(r.genInterest(allowLocalhost), check)
		case 'D':
			r.data(r.genData(allowLocalhost), check)
		case 'A':
			verifAdvance(int64(verifRange("adv", 0, 5000)) * int64(time.Millisecond))
			r.th.pitCS.Update()
		}
	}
	return r
}

// longer Data-side histories: two pending Interests then expiry and/or Data, re-expression after satisfaction
func VerifC01_Script_IIAD() { verifFwScript("C01", false, []string{"IIAD"}) }
func VerifC01_Script_IIDD() { verifFwScript("C01", false, []string{"IIDD"}) }
func VerifC01_Script_IDID() { verifFwScript("C01", false, []string{"IDID"}) }
func VerifC01_Script_IAID() { verifFwScript("C01", false, []string{"IAID"}) }

// the same with the content store admitting and serving: cache hits, repeated Data, re-expression after a hit
func VerifC01_Script_DID() { verifFwScript("C01", false, []string{"DID"}) }
func VerifC01_Script_DII() { verifFwScript("C01", false, []string{"DII"}) }
func VerifC01_Script_IDI() { verifFwScript("C01", false, []string{"IDI"}) }
