//verif:dir fw/face
package face

import (
	"io"
)

// C11: stream framing. A scripted reader delivers a stream of K well-formed TLV
// blocks (symbolic payload lengths, opaque payload) in R reads with symbolic sizes.

type verifScriptReader struct {
	data   []byte
	off    int
	sizes  []int
	i      int
	maxOne int
	stale  bool   // the first Read scribbles arbitrary bytes over the whole slice it is given (io.Reader allows that)
	whole  []byte // alias of the slice given to the first Read: the framer's whole receive buffer
}

func (r *verifScriptReader) Read(p []byte) (int, error) {
	if r.whole == nil {
		r.whole = p
		if r.stale {
			copy(p, verifBytesUF("stale", len(p)))
		}
	}
	if r.off >= len(r.data) {
		return 0, io.EOF
	}
	n := len(r.data) - r.off
	if r.i < len(r.sizes) {
		if r.sizes[r.i] < n {
			n = r.sizes[r.i]
		}
		r.i++
	}
	if len(p) < n {
		n = len(p)
	}
	copy(p, r.data[r.off:r.off+n])
	r.off += n
	return n, nil
}

// payload lengths from a boundary list (both sides of the 1/3-byte length form boundary, empty,
// and the largest block that fits the maximum packet size); contents opaque.
var verifC11Lens = []int{0, 1, 7, 252, 253, 254, 8796}

// verifC11Forms: also multi-byte type numbers and every length form a decoder of this repository accepts for the
// length (1-, 3- and 5-byte forms, also where a shorter form exists: enc.ReadTLNum does not insist on the shortest)
var verifC11Forms bool
var verifC11FormsLeft int // number of further blocks that get the extended forms

func verifC11Block(stream []byte) ([]byte, int) {
	start := len(stream)
	tform := 0
	forms := verifC11Forms && verifC11FormsLeft > 0
	if forms {
		verifC11FormsLeft--
		tform = verifChoice("typeform", 3)
	}
	switch tform {
	case 0:
		stream = append(stream, byte(verifRange("typ", 1, 0xfc)))
	case 1:
		t := verifRange("typ3", 253, 0xffff)
		stream = append(stream, 0xfd, byte(t>>8), byte(t))
	case 2:
		t := verifRange("typ5", 0x10000, 0xffffffff)
		stream = append(stream, 0xfe, byte(t>>24), byte(t>>16), byte(t>>8), byte(t))
	}
	plen := verifC11Lens[verifChoice("plen", len(verifC11Lens))]
	lform := 0
	if plen > 0xfc {
		lform = 1
	}
	if forms {
		lform += verifChoice("lenform", 3-lform)
	}
	switch lform {
	case 0:
		stream = append(stream, byte(plen))
	case 1:
		stream = append(stream, 0xfd, byte(plen>>8), byte(plen))
	case 2:
		stream = append(stream, 0xfe, 0, 0, byte(plen>>8), byte(plen))
	}
	stream = append(stream, verifBytesUF("payload", plen)...)
	return stream, len(stream) - start
}

// Every header form: 1-, 3- and 5-byte type numbers, 1-, 3- and 5-byte length forms; reads may end inside either field.
func VerifC11_HeaderForms() {
	verifC11Forms = true
	verifC11FormsLeft = verifParam("formsblocks", 1) // the first block(s); the following ones show a mis-framing
	verifC11Lens = []int{0, 253, 7}[:verifParam("formlens", 2)]
	verifC11Stream(verifParam("formblocks", 2), verifParam("formreads", 3), false)
}

func VerifC11_StreamFromEntry() {
	verifC11Stream(verifParam("blocks", 2), verifParam("reads", 3), false)
}

// The same scenario with the framer's loop invariant observed (see the comment at the probe) and with arbitrary
// stale bytes in the receive buffer; fewer block lengths so that the additional byte comparisons stay affordable.
func VerifC11_LoopInvariant() {
	verifC11Lens = []int{0, 1, 253, 8796}
	verifC11Stream(verifParam("invblocks", 2), verifParam("invreads", 3), true)
}

func verifC11Stream(k, nreads int, invariant bool) {
	stream := make([]byte, 0, 64)
	var sizes []int
	for i := 0; i < k; i++ {
		var sz int
		stream, sz = verifC11Block(stream)
		sizes = append(sizes, sz)
	}
	rd := &verifScriptReader{data: stream, stale: invariant}
	for i := 0; i < nreads-1; i++ {
		rd.sizes = append(rd.sizes, int(verifRange("chunk", 1, 3*8800)))
	}
	var frames [][]byte
	var err error
	delivered := 0
	// Loop invariant of the framer, observed at every arrival at its receive loop's head (symbolic runs only): nothing
	// delivered is still buffered, the unparsed remainder sits at the front of the buffer, is shorter than one packet
	// and equals the bytes received but not yet delivered.  Every such state is also the state after a first read
	// that delivers exactly that remainder, so what this harness shows for the first reads of a stream holds at any
	// later point of a stream of any length (for the block lengths of the list).
	probe := func(v []int) {
		recvOff, tlvOff := v[0], v[1]
		// whatever the compaction policy: the unparsed region holds exactly the bytes received and not yet delivered,
		// and there is room to receive more
		verifAssert(tlvOff >= 0 && tlvOff <= recvOff && (rd.whole == nil || recvOff < len(rd.whole)), "C11/invariant/room-to-receive")
		verifAssert(recvOff-tlvOff == rd.off-delivered, "C11/invariant/unparsed-region-is-what-was-received-and-not-delivered")
		if rd.whole != nil && tlvOff >= 0 && tlvOff <= recvOff && recvOff <= len(rd.whole) && recvOff-tlvOff == rd.off-delivered {
			verifAssertBytesEq(rd.whole[tlvOff:recvOff], stream[delivered:rd.off], "C11/invariant/unparsed-bytes-are-the-undelivered-stream-bytes")
		}
		// canonical states (remainder at the front, at most one packet) are exactly the states a first read of that
		// remainder produces; if every observed state is canonical the bounded result extends to streams of any length
		if tlvOff == 0 && recvOff <= 8800 {
			verifReached("C11/lift/canonical-state")
		} else {
			verifReached("C11/lift/NON-canonical-state (unbounded lift not established)")
		}
	}
	if invariant {
		verifProbeLoop("readTlvStream", "recvOff,tlvOff", probe)
	}
	verifNoPanic("C11/stream/no-panic", func() {
		err = readTlvStream(rd, func(f []byte) {
			c := make([]byte, len(f))
			copy(c, f)
			frames = append(frames, c)
			delivered += len(f)
		}, nil)
	})
	verifProbeLoop("", "", nil)
	verifAssert(err == nil, "C11/stream/no-error")
	verifAssert(len(frames) == k, "C11/stream/frame-count")
	off := 0
	for i := 0; i < k && i < len(frames); i++ {
		verifAssertBytesEq(frames[i], stream[off:off+sizes[i]], "C11/stream/frame-bytes")
		off += sizes[i]
	}
	verifObserve("nframes", len(frames))
}

// Long streams: total length beyond the 32-packet receive buffer, so that whatever buffer maintenance the
// framer does (compaction, rewind) happens many times with a partially received block pending.  Block and
// read sizes are concrete per path (chosen from lists); block contents are opaque symbolic bytes, so the
// byte-for-byte comparison of every delivered frame is decided by the solver.
var verifC11LongShapes = [][2]int{ // {payload length, read size}
	{996, 1499},   // small blocks, unaligned reads: ~1.5 blocks per read
	{8796, 8800},  // maximal blocks, reads aligned with blocks
	{8796, 13001}, // maximal blocks, reads straddle blocks
	{2500, 65536}, // many blocks per read
	{5000, 3001},  // several reads per block
}

func VerifC11_LongStream() {
	shape := verifC11LongShapes[verifChoice("shape", len(verifC11LongShapes))]
	plen, chunk := shape[0], shape[1]
	total := verifParam("longbytes", 300000)
	stream := make([]byte, 0, total+20000) // one large backing array: contents stay opaque, appends never reallocate
	var sizes []int
	for len(stream) < total {
		start := len(stream)
		stream = append(stream, byte(verifRange("typ", 1, 0xfc)))
		if plen <= 0xfc {
			stream = append(stream, byte(plen))
		} else {
			stream = append(stream, 0xfd, byte(plen>>8), byte(plen))
		}
		stream = append(stream, verifBytesUF("payload", plen)...)
		sizes = append(sizes, len(stream)-start)
	}
	rd := &verifScriptReader{data: stream}
	for n := 0; n*chunk < len(stream); n++ {
		rd.sizes = append(rd.sizes, chunk)
	}
	var frames [][]byte
	var err error
	// a framer that stops making progress (e.g. reads into a full buffer forever) loses every later block: the run must
	// end within a generous multiple (3 000 000) of the ~60 000 instructions a 300 KB stream takes
	verifStepBudget("C11/long/stream-is-consumed-and-the-framer-terminates", 3000000)
	verifNoPanic("C11/long/no-panic", func() {
		err = readTlvStream(rd, func(f []byte) {
			c := make([]byte, len(f))
			copy(c, f)
			frames = append(frames, c)
		}, nil)
	})
	verifStepBudget("C11/long/stream-is-consumed-and-the-framer-terminates", 0)
	verifAssert(err == nil, "C11/long/no-error")
	verifAssert(len(frames) == len(sizes), "C11/long/frame-count")
	off := 0
	for i := 0; i < len(sizes) && i < len(frames); i++ {
		verifAssertBytesEq(frames[i], stream[off:off+sizes[i]], "C11/long/frame-bytes")
		off += sizes[i]
	}
	verifObserve("nframes", len(frames))
}
