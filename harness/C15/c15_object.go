//verif:dir std/object
package object

import (
	"time"

	enc "github.com/named-data/ndnd/std/encoding"
	"github.com/named-data/ndnd/std/ndn"
	spec "github.com/named-data/ndnd/std/ndn/spec_2022"
)

// C15: produce -> (memory store) -> consume through the REAL object client; the consumer's engine is a
// loopback that answers from the producer's store, with delivery order and losses chosen by the explorer.

type verifTimer15 struct{}

func (verifTimer15) Now() time.Time                              { return time.Unix(1700000000, 0) }
func (verifTimer15) Sleep(time.Duration)                         {}
func (verifTimer15) Schedule(time.Duration, func()) func() error { return func() error { return nil } }
func (verifTimer15) Nonce() []byte                               { return []byte{1, 2, 3, 4, 5, 6, 7, 8} }

type verifPendingInt struct {
	interest *ndn.EncodedInterest
	cb       ndn.ExpressCallbackFunc
}

type verifLoopEngine struct {
	producer *Client
	pending  *[]verifPendingInt
}

func (e verifLoopEngine) EngineTrait() ndn.Engine                          { return e }
func (verifLoopEngine) Spec() ndn.Spec                                     { return spec.Spec{} }
func (verifLoopEngine) Timer() ndn.Timer                                   { return verifTimer15{} }
func (verifLoopEngine) Start() error                                       { return nil }
func (verifLoopEngine) Stop() error                                        { return nil }
func (verifLoopEngine) IsRunning() bool                                    { return true }
func (verifLoopEngine) AttachHandler(enc.Name, ndn.InterestHandler) error  { return nil }
func (verifLoopEngine) DetachHandler(enc.Name) error                       { return nil }
func (verifLoopEngine) RegisterRoute(enc.Name) error                       { return nil }
func (verifLoopEngine) UnregisterRoute(enc.Name) error                     { return nil }
func (verifLoopEngine) ExecMgmtCmd(string, string, any) error              { return nil }
func (e verifLoopEngine) Express(i *ndn.EncodedInterest, cb ndn.ExpressCallbackFunc) error {
	*e.pending = append(*e.pending, verifPendingInt{i, cb})
	return nil
}

var verifC15Sizes = []int{1, 8001, 8000, 7999, 16001}

func VerifC15_ProduceConsume() {
	var pending []verifPendingInt
	producer := &Client{engine: verifLoopEngine{pending: &pending}, store: NewMemoryStore()}
	total := verifC15Sizes[verifChoice("size", verifParam("nsizes", len(verifC15Sizes)))]
	// content supplied as one or two buffers split at a symbolic offset, opaque bytes
	content := verifBytesUF("content", total)
	orig := make([]byte, total)
	copy(orig, content)
	wire := enc.Wire{content}
	if total > 1 && verifBool("split") {
		var k int
		if verifParam("symsplit", 0) != 0 {
			k = int(verifRange("splitAt", 1, uint64(total-1))) // every split offset
		} else {
			cands := []int{1, total / 2, total - 1}
			if total > 8000 {
				cands = append(cands, 7999, 8000)
			}
			k = cands[verifChoice("splitAt", len(cands))]
		}
		wire = enc.Wire{content[:k], content[k:]}
	}
	base, _ := enc.NameFromStr("/obj")
	// the caller's name slice may have spare capacity (as slices built with append usually do)
	objName := append(make(enc.Name, 0, 1+[]int{0, 1, 4}[verifChoice("spare", 3)]), base...)
	args := ProduceArgs{Name: objName, Content: wire}
	if verifBool("explicitVersion") {
		v := verifRange("version", 0, 300)
		args.Version = &v
	}
	var vname enc.Name
	var err error
	verifNoPanic("C15/produce-no-panic", func() { vname, err = producer.Produce(args) })
	verifAssert(err == nil && len(vname) == 2, "C15/produce-succeeds")
	verifAssert(len(vname) == 2 && vname[0].Equal(base[0]) && vname[1].Typ == enc.TypeVersionNameComponent, "C15/produce-returns-the-versioned-name")
	nseg := (total + 7999) / 8000

	// consumer with the real client run loop
	consumer := NewClient(verifLoopEngine{producer: producer, pending: &pending}, NewMemoryStore())
	verifQueueGoroutines(true)
	verifAssert(consumer.Start() == nil, "C15/consumer-starts")
	completions := 0
	var got []byte
	var gotErr error
	// fetch through the metadata (object name without version) or directly by the versioned name, whose slice may
	// again have spare capacity
	fetchName := objName
	if verifBool("byVersionedName") {
		fetchName = append(make(enc.Name, 0, len(vname)+[]int{0, 2}[verifChoice("cspare", 2)]), vname...)
	}
	consumer.Consume(fetchName, func(st *ConsumeState) bool {
		if st.IsComplete() {
			completions++
			gotErr = st.Error()
		}
		if st.Error() == nil {
			got = append(got, st.Content()...)
		}
		return true
	})
	verifRunGoroutines()
	lossBudget := verifParam("losses", 1)
	for step := 0; step < 4*(nseg+2) && len(pending) > 0; step++ {
		k := verifChoice("deliver", len(pending))
		p := pending[k]
		pending = append(pending[:k], pending[k+1:]...)
		if lossBudget > 0 && verifBool("lose") {
			lossBudget--
			p.cb(ndn.ExpressCallbackArgs{Result: ndn.InterestResultTimeout})
		} else {
			// the producer answers from its store exactly as Client.onInterest does
			w, _ := producer.store.Get(p.interest.FinalName, p.interest.Config.CanBePrefix)
			if w == nil {
				p.cb(ndn.ExpressCallbackArgs{Result: ndn.InterestResultNack})
			} else {
				d, cov, perr := spec.Spec{}.ReadData(enc.NewBufferReader(w))
				verifAssert(perr == nil, "C15/stored-packet-decodes")
				p.cb(ndn.ExpressCallbackArgs{Result: ndn.InterestResultData, Data: d, RawData: enc.Wire{w}, SigCovered: cov})
			}
		}
		verifRunGoroutines()
	}
	verifAssert(len(pending) == 0, "C15/fetch-terminates")
	verifAssert(completions == 1, "C15/callback-reports-completion-exactly-once")
	verifAssert(gotErr == nil, "C15/losses-within-the-retry-budget-do-not-fail-the-fetch")
	if gotErr == nil {
		verifAssertBytesEq(got, orig, "C15/content-retrieved-byte-for-byte")
	}
}

// several versions in the memory store: a prefix lookup serves the newest; removed names are not served
func VerifC15_StoreNewestVersion() {
	s := NewMemoryStore()
	obj, _ := enc.NameFromStr("/obj")
	nv := 1 + verifChoice("nversions", verifParam("versions", 3))
	var vers []uint64
	for i := 0; i < nv; i++ {
		v := verifRange("v", 0, 300)
		for _, o := range vers {
			verifAssume(o != v)
		}
		vers = append(vers, v)
		name := append(append(enc.Name{}, obj...), enc.NewVersionComponent(v), enc.NewSegmentComponent(0))
		if verifBool("tx") {
			s.Begin()
			s.Put(name, v, []byte{byte(i + 1)})
			s.Commit()
		} else {
			s.Put(name, v, []byte{byte(i + 1)})
		}
	}
	var newest, idx uint64
	for i, v := range vers {
		if i == 0 || v > newest {
			newest, idx = v, uint64(i)
		}
	}
	w, err := s.Get(obj, true)
	verifAssert(err == nil && len(w) == 1 && w[0] == byte(idx+1), "C15/prefix-lookup-serves-the-newest-version")
	// remove the newest: it is no longer served
	rm := append(append(enc.Name{}, obj...), enc.NewVersionComponent(newest), enc.NewSegmentComponent(0))
	s.Remove(rm, false)
	w2, _ := s.Get(rm, false)
	verifAssert(w2 == nil, "C15/removed-packet-is-not-served")
	w3, _ := s.Get(obj, true)
	if nv == 1 {
		verifAssert(w3 == nil, "C15/removed-packet-is-not-served")
	} else {
		verifAssert(len(w3) == 1 && w3[0] != byte(idx+1), "C15/after-removal-the-next-newest-is-served")
	}
}
