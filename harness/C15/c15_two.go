//verif:dir std/object
package object

import (
	enc "github.com/named-data/ndnd/std/encoding"
	"github.com/named-data/ndnd/std/ndn"
	spec "github.com/named-data/ndnd/std/ndn/spec_2022"
)

// C15: two objects fetched concurrently by one consumer (one client run loop, one round-robin segment
// fetcher).  Each callback must report completion exactly once with its own content, whatever the order in
// which the outstanding Interests are answered; the run loop must not spin.
var verifC15TwoSizes = [][2]int{{1, 1}, {1, 8001}, {8001, 1}, {8001, 16001}}

func VerifC15_TwoObjects() {
	var pending []verifPendingInt
	producer := &Client{engine: verifLoopEngine{pending: &pending}, store: NewMemoryStore()}
	sz := verifC15TwoSizes[verifChoice("sizes", len(verifC15TwoSizes))]
	names := []string{"/obj1", "/obj2"}
	var origs [2][]byte
	var vnames [2]enc.Name
	for i := 0; i < 2; i++ {
		content := verifBytesUF("content", sz[i])
		origs[i] = make([]byte, sz[i])
		copy(origs[i], content)
		n, _ := enc.NameFromStr(names[i])
		vn, err := producer.Produce(ProduceArgs{Name: n, Content: enc.Wire{content}})
		verifAssert(err == nil && len(vn) == 2, "C15/produce-succeeds")
		vnames[i] = vn
	}
	consumer := NewClient(verifLoopEngine{producer: producer, pending: &pending}, NewMemoryStore())
	verifQueueGoroutines(true)
	verifAssert(consumer.Start() == nil, "C15/consumer-starts")
	var completions [2]int
	var gots [2][]byte
	var errs [2]error
	byVersion := verifBool("byVersionedName")
	// the run loop must come to rest after every event: a spinning fetcher is a violation, not a timeout
	verifStepBudget("C15/two/run-loop-terminates", 3000000)
	for i := 0; i < 2; i++ {
		i := i
		fetch, _ := enc.NameFromStr(names[i])
		if byVersion {
			fetch = vnames[i]
		}
		consumer.Consume(fetch, func(st *ConsumeState) bool {
			if st.IsComplete() {
				completions[i]++
				errs[i] = st.Error()
			}
			if st.Error() == nil {
				gots[i] = append(gots[i], st.Content()...)
			}
			return true
		})
		if verifBool("runBetween") {
			verifRunGoroutines()
		}
	}
	verifRunGoroutines()
	failBudget := verifParam("nacks", 1)
	var failed [2]bool
	for step := 0; step < 16 && len(pending) > 0; step++ {
		k := verifChoice("deliver", len(pending))
		p := pending[k]
		pending = append(pending[:k], pending[k+1:]...)
		w, _ := producer.store.Get(p.interest.FinalName, p.interest.Config.CanBePrefix)
		if failBudget > 0 && verifBool("nack") {
			// one Interest is answered with a Nack: that object fails, the other must still complete
			failBudget--
			w = nil
			for i := 0; i < 2; i++ {
				if vnames[i].IsPrefix(p.interest.FinalName) || (len(p.interest.FinalName) > 0 && p.interest.FinalName[0].Equal(vnames[i][0])) {
					failed[i] = true
				}
			}
		}
		if w == nil {
			p.cb(ndn.ExpressCallbackArgs{Result: ndn.InterestResultNack})
		} else {
			d, cov, perr := spec.Spec{}.ReadData(enc.NewBufferReader(w))
			verifAssert(perr == nil, "C15/stored-packet-decodes")
			p.cb(ndn.ExpressCallbackArgs{Result: ndn.InterestResultData, Data: d, RawData: enc.Wire{w}, SigCovered: cov})
		}
		verifRunGoroutines()
	}
	verifStepBudget("C15/two/run-loop-terminates", 0)
	verifAssert(len(pending) == 0, "C15/fetch-terminates")
	for i := 0; i < 2; i++ {
		verifAssert(completions[i] == 1, "C15/two/each-callback-reports-completion-exactly-once")
		if !failed[i] {
			verifAssert(errs[i] == nil, "C15/two/no-error-without-loss")
		}
		if errs[i] == nil {
			verifAssertBytesEq(gots[i], origs[i], "C15/two/each-object-retrieved-byte-for-byte")
		}
	}
}
