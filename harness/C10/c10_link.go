//verif:dir fw/face
package face

import (
	defn "github.com/named-data/ndnd/fw/defn"
	"github.com/named-data/ndnd/fw/dispatch"
	"github.com/named-data/ndnd/fw/fw"
	enc "github.com/named-data/ndnd/std/encoding"
	spec "github.com/named-data/ndnd/std/ndn/spec_2022"
)

// ---- fakes: a recording transport and a recording forwarding thread

type verifTransport struct {
	transportBase
	frames [][]byte
}

func (t *verifTransport) String() string                     { return "verif-transport" }
func (t *verifTransport) SetPersistency(p Persistency) bool { t.persistency = p; return true }
func (t *verifTransport) GetSendQueueSize() uint64           { return 0 }
func (t *verifTransport) sendFrame(f []byte) {
	c := make([]byte, len(f))
	copy(c, f)
	t.frames = append(t.frames, c)
}
func (t *verifTransport) runReceive() {}
func (t *verifTransport) Close()      {}

type verifFwThread struct {
	interests []*defn.Pkt
	datas     []*defn.Pkt
}

func (t *verifFwThread) String() string              { return "verif-fw" }
func (t *verifFwThread) QueueData(p *defn.Pkt)       { t.datas = append(t.datas, p) }
func (t *verifFwThread) QueueInterest(p *defn.Pkt)   { t.interests = append(t.interests, p) }
func (t *verifFwThread) GetNumPitEntries() int       { return 0 }
func (t *verifFwThread) GetNumCsEntries() int        { return 0 }

func verifC10Link(mtu int, opt NDNLPLinkServiceOptions) (*NDNLPLinkService, *verifTransport) {
	tr := &verifTransport{}
	tr.makeTransportBase(nil, nil, PersistencyPersistent, defn.NonLocal, defn.PointToPoint, mtu)
	l := MakeNDNLPLinkService(tr, opt)
	return l, tr
}

func verifC10Threads() *verifFwThread {
	th := &verifFwThread{}
	dispatch.InitializeFWThreads([]dispatch.FWThread{th})
	fw.Threads = make([]*fw.Thread, 1)
	return th
}

// a well-formed Data packet of exactly n bytes: 06 <len> 07 03 08 01 'a' 15 <clen> <opaque content>
func verifC10Packet(n int) []byte {
	// header sizes: outer T(1)+L(3 bytes form) = 4, name 5, content T(1)+L(3) = 4  => n = 13 + clen, clen >= 253
	clen := n - 13
	content := verifBytesUF("content", clen)
	w := make([]byte, 0, 16)
	w = append(w, 0x06, 0xfd, byte((n-4)>>8), byte(n-4))
	w = append(w, 0x07, 0x03, 0x08, 0x01, 'a')
	w = append(w, 0x15, 0xfd, byte(clen>>8), byte(clen))
	w = append(w, content...)
	return w
}

var verifC10Sizes = []int{300, 1000, 1453, 4000, 8800}

// Sender half: frames fit the MTU; oversize without fragmentation is dropped, never truncated.
// Receiver half: a peer fed those frames (in a solver-chosen order) delivers the packet once, bytes identical.
var verifC10Mtus = []int{128, 300, 1500, 4417, 8800}

func VerifC10_SenderFrames() {
	verifC10Run(true)
}

func VerifC10_FragmentReassemble() {
	verifC10Run(false)
}

func verifC10Run(senderOnly bool) {
	n := verifC10Sizes[verifChoice("size", len(verifC10Sizes))]
	maxFrags := verifParam("maxfrags", 3)
	opt := MakeNDNLPLinkServiceOptions()
	opt.IsFragmentationEnabled = verifBool("frag")
	opt.IsIncomingFaceIndicationEnabled = verifBool("ifi")
	hasTok := verifBool("tok")
	hasMark := verifBool("mark")
	var mtu int
	if senderOnly {
		mtu = int(verifRange("mtu", 128, 8800)) // every MTU
	} else {
		// the MTU list, plus the MTUs that make the packet an exact multiple (2x, 3x) of the per-frame payload
		k := verifChoice("mtu", len(verifC10Mtus)+2)
		if k < len(verifC10Mtus) {
			mtu = verifC10Mtus[k]
		} else {
			parts := k - len(verifC10Mtus) + 2
			verifAssume(n%parts == 0)
			l0, _ := verifC10Link(8800, opt)
			mtu = n/parts + l0.headerOverhead
			if hasTok {
				mtu += pitTokenOverhead
			}
			if hasMark {
				mtu += congestionMarkOverhead
			}
			verifAssume(mtu >= 128)
		}
	}
	wire := verifC10Packet(n)
	l, tr := verifC10Link(mtu, opt)
	name, _ := enc.NameFromStr("/a")
	pkt := &defn.Pkt{Name: name, Raw: wire, L3: &spec.Packet{Data: &spec.Data{NameV: name}}}
	out := dispatch.OutPkt{Pkt: pkt}
	if hasTok {
		out.PitToken = verifBytesN("token", 6)
		// a token in this forwarder's format names forwarding thread 0 (the only thread of the receiver rig)
		verifAssume(out.PitToken[0] == 0 && out.PitToken[1] == 0)
		pkt.PitToken = out.PitToken
	}
	var mark *uint64
	if hasMark {
		m := verifU64("markval")
		mark = &m
		pkt.CongestionMark = mark
	}
	if verifBool("inface") {
		f := verifU64("infaceval")
		out.InFace = &f
	}
	// bound: at most maxFrags fragments (smallest effective payload per frame is mtu-60)
	verifAssume(n <= maxFrags*(mtu-60))
	verifNoPanic("C10/send/no-panic", func() { sendPacket(l, out) })
	nf := len(tr.frames)
	for _, f := range tr.frames {
		verifAssert(len(f) <= mtu, "C10/frames/within-mtu")
	}
	if !opt.IsFragmentationEnabled && n+60 <= mtu {
		verifAssert(nf == 1, "C10/frames/fits-sent-as-one-frame")
	}
	if n+60 <= mtu {
		verifAssert(nf == 1, "C10/frames/fits-sent-as-one-frame")
	}
	if !opt.IsFragmentationEnabled && n > mtu {
		verifAssert(nf == 0, "C10/frames/oversize-dropped-when-fragmentation-disabled")
	}
	if opt.IsFragmentationEnabled {
		verifAssert(nf >= 1, "C10/frames/something-sent")
	}
	if nf == 0 || senderOnly {
		return
	}
	// ---- receiver
	th := verifC10Threads()
	l2, _ := verifC10Link(mtu, MakeNDNLPLinkServiceOptions())
	order := verifC10Perm(nf)
	verifNoPanic("C10/receive/no-panic", func() {
		for _, i := range order {
			l2.handleIncomingFrame(tr.frames[i])
		}
	})
	verifAssert(len(th.datas)+len(th.interests) == 1, "C10/reassembly/delivered-exactly-once")
	if len(th.datas) == 1 {
		got := th.datas[0]
		verifAssertBytesEq(got.Raw, wire, "C10/reassembly/bytes-equal")
		if hasTok {
			verifAssertBytesEq(got.PitToken, out.PitToken, "C10/reassembly/pit-token")
		} else {
			verifAssert(len(got.PitToken) == 0, "C10/reassembly/no-pit-token")
		}
		if mark != nil {
			verifAssert(got.CongestionMark != nil && *got.CongestionMark == *mark, "C10/reassembly/congestion-mark")
		} else {
			verifAssert(got.CongestionMark == nil, "C10/reassembly/no-congestion-mark")
		}
	}
	verifObserve("nframes", nf)
}

// all permutations of 0..n-1 chosen by the explorer
func verifC10Perm(n int) []int {
	avail := make([]int, n)
	for i := range avail {
		avail[i] = i
	}
	var out []int
	for len(avail) > 0 {
		k := verifChoice("perm", len(avail))
		out = append(out, avail[k])
		avail = append(avail[:k], avail[k+1:]...)
	}
	return out
}

// Two (thorough: three) fragmented messages sent back to back by one link service and delivered to a fresh peer in
// every interleaving of their frames: each packet is delivered exactly once, byte-identical, with its own token.
func VerifC10_InterleavedMessages() {
	nmsg := verifParam("messages", 2)
	mtu := []int{300, 500, 1500}[verifChoice("mtu", 3)]
	opt := MakeNDNLPLinkServiceOptions()
	opt.IsFragmentationEnabled = true
	l, tr := verifC10Link(mtu, opt)
	name, _ := enc.NameFromStr("/a")
	var wires [][]byte
	var toks [][]byte
	var owner []int // message index of every frame
	for m := 0; m < nmsg; m++ {
		// sizes that need two or three frames at this MTU
		n := mtu + 100 + 150*verifChoice("extra", 2) + m
		if n < 300 {
			n = 300
		}
		wire := verifC10Packet(n)
		wires = append(wires, wire)
		pkt := &defn.Pkt{Name: name, Raw: wire, L3: &spec.Packet{Data: &spec.Data{NameV: name}}}
		out := dispatch.OutPkt{Pkt: pkt}
		tok := verifBytesN("token", 6)
		verifAssume(tok[0] == 0 && tok[1] == 0)
		out.PitToken, pkt.PitToken = tok, tok
		toks = append(toks, tok)
		before := len(tr.frames)
		verifNoPanic("C10/send/no-panic", func() { sendPacket(l, out) })
		for i := before; i < len(tr.frames); i++ {
			owner = append(owner, m)
		}
		verifAssert(len(tr.frames)-before >= 2, "C10/interleave/fragmented")
	}
	verifAssume(len(tr.frames) <= verifParam("maxframes", 5))
	th := verifC10Threads()
	l2, _ := verifC10Link(mtu, MakeNDNLPLinkServiceOptions())
	order := verifC10Perm(len(tr.frames))
	verifNoPanic("C10/receive/no-panic", func() {
		for _, i := range order {
			l2.handleIncomingFrame(tr.frames[i])
		}
	})
	verifAssert(len(th.interests) == 0 && len(th.datas) == nmsg, "C10/interleave/every-message-delivered-exactly-once")
	for m := 0; m < nmsg; m++ {
		found := 0
		for _, got := range th.datas {
			if len(got.Raw) == len(wires[m]) {
				found++
				verifAssertBytesEq(got.Raw, wires[m], "C10/interleave/bytes-equal")
				verifAssertBytesEq(got.PitToken, toks[m], "C10/interleave/pit-token")
			}
		}
		verifAssert(found == 1, "C10/interleave/every-message-delivered-exactly-once")
	}
}
