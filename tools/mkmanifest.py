#!/usr/bin/env python3
"""Regenerate /verif/MANIFEST.json from harness/<id>/config.json ("manifest" sections) and properties.jsonl."""
import json, os, glob
V = os.path.dirname(os.path.dirname(os.path.abspath(__file__)))
props = [json.loads(l)["id"] for l in open(os.path.join(V, "properties.jsonl"))]
checks, na = [], []
for pid in props:
    cfgp = os.path.join(V, "harness", pid, "config.json")
    m = None
    if os.path.exists(cfgp):
        m = json.load(open(cfgp)).get("manifest")
    if not m or m.get("not_applicable"):
        reason = (m or {}).get("not_applicable") or "no check built yet for this property in the solver-based framework (engine capability not reached in the time available)"
        na.append({"property_id": pid, "reason": reason})
        continue
    checks.append({
        "property_id": pid,
        "quick_cmd": f"./bin/vcheck run {pid} --tier quick",
        "thorough_cmd": f"./bin/vcheck run {pid} --tier thorough",
        "evidence_file": f"/verif/evidence/{pid}.json",
        "replay_cmd_template": "./bin/vcheck replay {path}",
        "engine": "symgo",
        "level_claimed": {"category": "model_checking", "text": m["text"], "design_ref": m.get("design_ref", "DESIGN.md §5 " + pid)},
        "level_note": m["note"],
        "technique": m.get("technique", "bounded symbolic execution of the real code over go/ssa, obligations decided by SMT (cvc5/z3, QF_UFBV), counterexamples replayed natively"),
    })
man = {
    "version": 1,
    "setup_cmd": "cd /verif/engine && GOFLAGS=-mod=mod GOPROXY=off GOSUMDB=off GOTOOLCHAIN=local go build -o /verif/bin/vcheck ./cmd/vcheck",
    "hooks": {
        "guard": "verif",
        "enable": "no source hooks: harnesses are injected as in-package overlay files (go/packages Overlay for the symbolic run, go test -overlay for native replay); nothing is written into /repo",
        "baseline_off_cmd": "cd /repo && GOFLAGS=-mod=mod go test -vet=off -count=1 ./...",
        "source_commits": [],
        "add_only": True,
    },
    "engines": [{"name": "symgo", "path": "/verif/engine", "serves_properties": [c["property_id"] for c in checks],
                 "kind_free_text": "symbolic interpreter for go/ssa (x/tools v0.29.0) with SMT back ends cvc5 1.0.3 and z3 4.8.12; re-execution DFS; native replay of models"}],
    "checks": checks,
    "not_applicable": na,
    "notes": "All checks are one binary (bin/vcheck) built by setup_cmd; every run reloads /repo's working tree. Exit 0 = held within the stated bounds; 1 = VIOLATION (natively reproduced); 2 = inconclusive (no VIOLATION line). Known findings: /verif/known_findings.json.",
}
json.dump(man, open(os.path.join(V, "MANIFEST.json"), "w"), indent=1)
print("checks:", [c["property_id"] for c in checks], "n/a:", len(na))
