#!/bin/bash
# usage: seed_verify.sh <worktree> <seed-id> <property>
# Confirms a seeded change in a scratch worktree (compiles, suite passes, demo fails with / passes without)
# and stores it under /verif/seeded/<seed-id>/.
set -u
export GOFLAGS=-mod=mod GOPROXY=off GOSUMDB=off GOTOOLCHAIN=local
wt=$1; sid=$2; prop=$3
cd "$wt" || exit 2
head=$(git -C /repo rev-parse HEAD)
if [ "$(git rev-parse HEAD)" != "$head" ]; then
  git stash -q -u && git checkout -q --detach $head && git stash pop -q || { echo "cannot move worktree to $head"; exit 2; }
fi
demo=$(git status --porcelain | grep 'zz_seed_demo_test.go' | awk '{print $2}' | head -1)
[ -z "$demo" ] && { echo "no demo test found"; exit 2; }
pkg=./$(dirname "$demo")
out=/verif/seeded/$sid
mkdir -p "$out"
# canonical patch: tracked-file diff only
git add -N -- . ":!*zz_seed_demo_test.go" ":!*zz_benign_demo_test.go" ":!NOTES.md" 2>/dev/null  # new source files belong to the patch
git diff -- . ':!*zz_seed_demo_test.go' > "$out/patch.diff"
[ -s "$out/patch.diff" ] || { echo "empty patch (is it applied?)"; exit 2; }
cp "$demo" "$out/$(basename "$demo")"
[ -f NOTES.md ] && cp NOTES.md "$out/NOTES.md"
echo "== build with patch"; go build ./... || { echo BUILD-FAIL; exit 1; }
echo "== demo with patch (must fail)"
go test -vet=off -count=1 -run 'Seed' "$pkg" > "$out/demo_with_patch.log" 2>&1; rc_with=$?
tail -5 "$out/demo_with_patch.log"
echo "== full suite with patch, demo set aside (must pass)"
mv "$demo" /tmp/seed_demo_aside_$$.go
go test -vet=off -count=1 ./... > "$out/suite_with_patch.log" 2>&1; rc_suite=$?
grep -v '^ok\|no test files' "$out/suite_with_patch.log" | head
mv /tmp/seed_demo_aside_$$.go "$demo"
echo "== demo without patch (must pass)"
git apply -R "$out/patch.diff" || { echo "cannot reverse patch"; exit 2; }
go test -vet=off -count=1 -run 'Seed' "$pkg" > "$out/demo_without_patch.log" 2>&1; rc_without=$?
tail -3 "$out/demo_without_patch.log"
git apply "$out/patch.diff"
echo "RESULT sid=$sid with=$rc_with suite=$rc_suite without=$rc_without"
if [ $rc_with -ne 0 ] && [ $rc_suite -eq 0 ] && [ $rc_without -eq 0 ]; then echo SEED-OK; exit 0; fi
echo SEED-REJECTED; exit 1
