#!/bin/bash
export VERIF_STOP_AT_FIRST_VIOLATION=1
while true; do
  s=$(head -1 /tmp/seedq.txt 2>/dev/null)
  if [ -z "$s" ]; then sleep 5; continue; fi
  sed -i 1d /tmp/seedq.txt
  [ "$s" = STOP ] && break
  echo "=== $s" >> /tmp/sweep_r6.txt
  /verif/tools/seed_run_wt.sh $s ${s%%-*} quick >> /tmp/sweep_r6.txt 2>&1
done
