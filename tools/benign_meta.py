#!/usr/bin/env python3
"""usage: benign_meta.py <id> <change> - writes seeded/<id>/meta.json (kind=benign) after tools/benign_verify.sh said BENIGN-OK"""
import json, os, sys
V = os.path.dirname(os.path.dirname(os.path.abspath(__file__)))
sid, change = sys.argv[1:3]
json.dump({"seed": sid, "kind": "benign", "property": sid.split('-')[0], "change": change,
  "purpose": "property-preserving change for false-alarm testing: the check must pass (exit 0, no VIOLATION) with it applied",
  "confirmed": "tools/benign_verify.sh: builds, suite passes, the agent's demo passes with and without the change",
  "origin": "fresh sub-agent (round 6) given only the property text, its own worktree and a hint where to work"}, open(os.path.join(V, 'seeded', sid, 'meta.json'), 'w'), indent=1)
