#!/bin/bash
# usage: seed_run.sh <seed-id> <property> [tier] [extra vcheck args]
# Applies /verif/seeded/<seed-id>/patch.diff to /repo, runs the property's check, and undoes the change.
set -u
sid=$1; prop=$2; tier=${3:-quick}; shift; shift; shift || true
cd /repo || exit 2
[ -n "$(git status --porcelain)" ] && { echo "/repo not clean"; exit 2; }
git apply /verif/seeded/$sid/patch.diff || { echo "patch does not apply"; exit 2; }
/verif/bin/vcheck run $prop --tier $tier "$@" > /tmp/seedrun_$sid.log 2>&1; rc=$?
git -C /repo checkout -- .
grep -E '^VIOLATION|^KNOWN|^INCONCLUSIVE|^  C[0-9]|exit=' /tmp/seedrun_$sid.log | cut -c1-300 | head -30
echo "SEEDRUN sid=$sid prop=$prop tier=$tier exit=$rc"
exit 0
