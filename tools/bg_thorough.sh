#!/bin/bash
# Background thorough sweep, meant for `vp run -- tools/bg_thorough.sh [props...]`: runs from the snapshot
# (cwd), builds vcheck there, writes logs and a summary into ./thorough_out/.  Not evidence.
export GOFLAGS=-mod=mod GOPROXY=off GOSUMDB=off GOTOOLCHAIN=local
W=${WORKERS:-6}
here=$PWD
(cd engine && go build -o $here/bin/vcheck ./cmd/vcheck) || exit 3
mkdir -p thorough_out
props=${@:-C16 C14 C03 C18 C19 C20 C12 C10 C11 C05 C06 C07 C17 C15 C04 C13 C08 C01 C02 C09}
for p in $props; do
  t0=$(date +%s)
  VERIF_DIR=$here ./bin/vcheck run $p --tier thorough --workers $W > thorough_out/$p.log 2>&1
  rc=$?
  echo "$p exit=$rc wall=$(( $(date +%s) - t0 ))s" >> thorough_out/summary.txt
  grep "^  Verif" thorough_out/$p.log | awk '{print "    " $0}' | cut -c1-160 >> thorough_out/summary.txt
  grep "^INCONCLUSIVE\|^VIOLATION" thorough_out/$p.log | grep -v "prefixes unexplored" | cut -c1-200 | sort | uniq -c | head -6 >> thorough_out/summary.txt
done
echo DONE >> thorough_out/summary.txt
