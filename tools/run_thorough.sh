#!/bin/bash
# Runs the thorough tier of the given properties (default: all) against /repo from a snapshot copy of /verif,
# so that work in /verif can go on meanwhile.  Summary lines go to $OUT/summary.txt.
OUT=${OUT:-/tmp/thorough}
W=${WORKERS:-8}
mkdir -p $OUT
SNAP=$OUT/verif
rm -rf $SNAP; mkdir -p $SNAP
rsync -a --exclude .git --exclude replays --exclude evidence --exclude seeded /verif/ $SNAP/
props=${@:-C01 C02 C03 C04 C05 C06 C07 C08 C09 C10 C11 C12 C13 C14 C15 C16 C17 C18 C19 C20}
for p in $props; do
  t0=$(date +%s)
  VERIF_DIR=$SNAP $SNAP/bin/vcheck run $p --tier thorough --workers $W > $OUT/$p.log 2>&1
  rc=$?
  echo "$p exit=$rc wall=$(( $(date +%s) - t0 ))s" >> $OUT/summary.txt
  grep "^  Verif" $OUT/$p.log | awk '{print "    " $0}' | cut -c1-160 >> $OUT/summary.txt
  grep "^INCONCLUSIVE\|^VIOLATION" $OUT/$p.log | grep -v "prefixes unexplored" | cut -c1-200 | sort | uniq -c | head -6 >> $OUT/summary.txt
done
echo DONE >> $OUT/summary.txt
