#!/bin/bash
# usage: benign_verify.sh <worktree> <id> 
# Confirms a property-preserving change made by a sub-agent (compiles, suite passes, its demo passes with and
# without the change) and stores it under /verif/seeded/<id>/ (meta.json: kind=benign).
set -u
export GOFLAGS=-mod=mod GOPROXY=off GOSUMDB=off GOTOOLCHAIN=local
wt=$1; sid=$2
cd "$wt" || exit 2
head=$(git -C /repo rev-parse HEAD)
if [ "$(git rev-parse HEAD)" != "$head" ]; then
  git stash -q -u && git checkout -q --detach $head && git stash pop -q || { echo "cannot move worktree to $head"; exit 2; }
fi
demo=$(git status --porcelain | grep 'zz_benign_demo_test.go' | awk '{print $2}' | head -1)
[ -z "$demo" ] && { echo "no demo test found"; exit 2; }
pkg=./$(dirname "$demo")
out=/verif/seeded/$sid
mkdir -p "$out"
git add -N -- . ":!*zz_seed_demo_test.go" ":!*zz_benign_demo_test.go" ":!NOTES.md" 2>/dev/null  # new source files belong to the patch
git diff -- . ':!*zz_benign_demo_test.go' > "$out/patch.diff"
[ -s "$out/patch.diff" ] || { echo "empty patch"; exit 2; }
cp "$demo" "$out/$(basename "$demo")"
[ -f NOTES.md ] && cp NOTES.md "$out/NOTES.md"
go build ./... || { echo BUILD-FAIL; exit 1; }
go test -vet=off -count=1 -run 'Benign' "$pkg" > "$out/demo_with_patch.log" 2>&1; rc_with=$?
mv "$demo" /tmp/benign_demo_aside_$$.go
go test -vet=off -count=1 ./... > "$out/suite_with_patch.log" 2>&1; rc_suite=$?
mv /tmp/benign_demo_aside_$$.go "$demo"
git apply -R "$out/patch.diff" || { echo "cannot reverse patch"; exit 2; }
go test -vet=off -count=1 -run 'Benign' "$pkg" > "$out/demo_without_patch.log" 2>&1; rc_without=$?
git apply "$out/patch.diff"
echo "RESULT sid=$sid with=$rc_with suite=$rc_suite without=$rc_without"
if [ $rc_with -eq 0 ] && [ $rc_suite -eq 0 ] && [ $rc_without -eq 0 ]; then echo BENIGN-OK; exit 0; fi
echo BENIGN-REJECTED; exit 1
