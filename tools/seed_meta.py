#!/usr/bin/env python3
"""usage: seed_meta.py <seed-id> <change> <needs> [origin] - writes seeded/<id>/meta.json after tools/seed_verify.sh said SEED-OK"""
import json, os, sys
V = os.path.dirname(os.path.dirname(os.path.abspath(__file__)))
sid, change, needs = sys.argv[1:4]
origin = sys.argv[4] if len(sys.argv) > 4 else "fresh sub-agent (sixth round) given only the property text, its own worktree and a hint which clauses to prefer"
json.dump({"seed": sid, "property": sid.split('-')[0], "change": change, "needs_to_manifest": needs,
  "confirmed": "tools/seed_verify.sh in a scratch worktree at the then-current /repo HEAD: go build ./... ok; go test -vet=off -count=1 ./... passes with the patch (demo set aside); demo test fails with the patch (demo_with_patch.log) and passes without it (demo_without_patch.log)",
  "origin": origin}, open(os.path.join(V, 'seeded', sid, 'meta.json'), 'w'), indent=1)
