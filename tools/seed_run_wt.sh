#!/bin/bash
# usage: seed_run_wt.sh <seed-id> <property> [tier] [extra vcheck args]
# Development variant of seed_run.sh: runs the check against a scratch worktree of /repo with the seeded patch
# applied (VERIF_REPO) and a scratch copy of /verif (VERIF_DIR), so that /repo and /verif/evidence stay untouched.
set -u
sid=$1; prop=$2; tier=${3:-quick}; shift; shift; shift || true
wt=/tmp/wts_$sid; vs=/tmp/vs_$sid
git -C /repo worktree remove --force $wt >/dev/null 2>&1
git -C /repo worktree add -q --detach $wt HEAD || exit 2
git -C $wt apply /verif/seeded/$sid/patch.diff || { echo "patch does not apply"; git -C /repo worktree remove --force $wt; exit 2; }
rm -rf $vs; mkdir -p $vs
rsync -a --exclude .git --exclude bin --exclude replays --exclude evidence --exclude seeded /verif/ $vs/
VERIF_REPO=$wt VERIF_DIR=$vs ${VCHECK_BIN:-/verif/bin/vcheck} run $prop --tier $tier "$@" > /tmp/seedrun_$sid.log 2>&1; rc=$?
grep -E '^VIOLATION|^KNOWN|^INCONCLUSIVE|exit=' /tmp/seedrun_$sid.log | cut -c1-260 | head -12
grep -A1 '^VIOLATION' /tmp/seedrun_$sid.log | grep '^  ' | cut -c1-200 | sort | uniq -c | head -8
echo "SEEDRUN-WT sid=$sid prop=$prop tier=$tier exit=$rc"
git -C /repo worktree remove --force $wt; rm -rf $vs
